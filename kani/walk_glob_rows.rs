// C02 closure step and C14 rows (see below)
