// Kani harnesses mounted inside `crate::walk::behavior`.
// C15 depth clause: for every behaviour obtainable from the public constructors, every pivot and
// every traversal depth: "walkdir yields at depth d" (its documented min_depth <= d <= max_depth on
// the numbers the real *_at_pivot functions return) <=> "d + pivot lies within the configured
// bounds".
use super::*;

fn any_behavior() -> (DepthBehavior, u8) {
    let kind: u8 = kani::any();
    kani::assume(kind < 6);
    let a: usize = kani::any();
    let b: usize = kani::any();
    let behavior = match kind {
        0 => DepthBehavior::Unbounded,
        1 => DepthBehavior::Max(DepthMax(a)),
        2 => DepthMin::from_min_or_unbounded(a),
        3 => DepthMinMax::from_depths_or_max(a, b),
        4 => {
            let min = if kani::any() { Some(a) } else { None };
            let max = if kani::any() { Some(b) } else { None };
            match DepthBehavior::bounded(min, max) {
                Some(behavior) => {
                    // the documented contract of `bounded` for a non-zero minimum
                    assert!(!matches!(behavior, DepthBehavior::Unbounded));
                    behavior
                },
                None => {
                    // documented: both open, or misordered (a zero minimum is also refused,
                    // observation recorded in DESIGN.md)
                    assert!(
                        (min.is_none() && max.is_none())
                            || matches!((min, max), (Some(x), Some(y)) if x > y)
                            || min == Some(0)
                    );
                    DepthBehavior::Unbounded
                },
            }
        },
        _ => {
            // public struct with public fields
            let min = NonZeroUsize::new(a);
            kani::assume(min.is_some());
            DepthBehavior::MinMax(DepthMinMax {
                min: min.unwrap(),
                extent: b,
            })
        },
    };
    (behavior, kind)
}

// the configured bounds, read from the public representation
fn configured(behavior: &DepthBehavior) -> (usize, usize) {
    match behavior {
        DepthBehavior::Unbounded => (0, usize::MAX),
        DepthBehavior::Max(max) => (0, max.0),
        DepthBehavior::Min(min) => (min.0.get(), usize::MAX),
        DepthBehavior::MinMax(minmax) => (minmax.min.get(), minmax.max().get()),
    }
}

// what is handed to walkdir (the same match as `WalkTree::with_pivot_and_behavior`, which the
// harness `walktree_configuration` ties to the real call site)
fn translated(behavior: DepthBehavior, pivot: usize) -> (usize, usize) {
    match behavior {
        DepthBehavior::Unbounded => (0, usize::MAX),
        DepthBehavior::Max(max) => (0, max.max_at_pivot(pivot)),
        DepthBehavior::Min(min) => (min.min_at_pivot(pivot), usize::MAX),
        DepthBehavior::MinMax(minmax) => minmax.min_max_at_pivot(pivot),
    }
}

fn translation_case(reachable: bool) {
    let (behavior, kind) = any_behavior();
    let pivot: usize = kani::any();
    let d: usize = kani::any();
    // d + pivot is a real depth: it cannot overflow
    kani::assume(d.checked_add(pivot).is_some());
    let (lo, hi) = configured(&behavior);
    // split: the configured maximum reaches the root of the traversal (pivot) or lies above it
    kani::assume((hi >= pivot) == reachable);
    let (wlo, whi) = translated(behavior, pivot);
    // walkdir clamps min_depth to max_depth when min > max
    let wlo = if wlo > whi { whi } else { wlo };
    let yielded = wlo <= d && d <= whi;
    let documented = lo <= d + pivot && d + pivot <= hi;
    assert!(yielded == documented);
    kani::cover!(kind == 3 && yielded);
    kani::cover!(kind == 4 && !yielded);
    kani::cover!(kind == 5);
}

/// Configured maximum at or below the traversal root (`max >= pivot`): exact agreement.
#[kani::proof]
fn depth_translation_matches_documented_bounds() {
    translation_case(true);
}

/// Configured maximum above the traversal root (`max < pivot`): nothing may be yielded.
#[kani::proof]
fn depth_translation_max_below_pivot() {
    translation_case(false);
}

/// The constructors keep both bounds and order them.
#[kani::proof]
fn depth_constructors_keep_bounds() {
    let p: usize = kani::any();
    let q: usize = kani::any();
    let (lo, hi) = if p <= q { (p, q) } else { (q, p) };
    let behavior = DepthMinMax::from_depths_or_max(p, q);
    let (clo, chi) = configured(&behavior);
    assert!(clo == lo && chi == hi);
    match DepthMin::from_min_or_unbounded(p) {
        DepthBehavior::Unbounded => assert!(p == 0),
        DepthBehavior::Min(min) => assert!(min.0.get() == p),
        _ => assert!(false),
    }
    if p >= 1 && p <= q {
        match DepthBehavior::bounded(p, q) {
            Some(behavior) => {
                let (clo, chi) = configured(&behavior);
                assert!(clo == p && chi == q);
            },
            None => assert!(false),
        }
    }
    kani::cover!(p > q);
}
