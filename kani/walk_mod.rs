// Kani harnesses mounted inside `crate::walk`.
// C13 step 3: the REAL `WalkTree::{next, cancel_walk_tree}` over a stubbed `walkdir::IntoIter`.
// C15: the REAL `WalkTree::with_pivot_and_behavior` with the `WalkDir` builder setters recorded.
// C20: the REAL `From<walkdir::Error> for WalkError` on mirrored `walkdir::Error` values.
use super::*;

// Field-for-field mirror of `walkdir::DirEntry` (walkdir 2.5, unix): same compiler, same field
// list => same layout; guarded by a size assertion.
struct MirrorDirEntry {
    path: PathBuf,
    ty: u32, // st_mode: 0o040000 directory, 0o100000 regular file, 0o120000 symbolic link
    follow_link: bool,
    depth: usize,
    ino: u64,
}

fn fabricate(kind: u8) -> DirEntry {
    assert!(std::mem::size_of::<MirrorDirEntry>() == std::mem::size_of::<DirEntry>());
    let ty = match kind {
        1 => 0o040000,
        2 => 0o100000,
        _ => 0o120000,
    };
    unsafe {
        std::mem::transmute::<MirrorDirEntry, DirEntry>(MirrorDirEntry {
            path: PathBuf::new(),
            ty,
            follow_link: false,
            depth: 1,
            ino: 0,
        })
    }
}

struct MirrorError {
    depth: usize,
    inner: MirrorInner,
}

enum MirrorInner {
    Io { path: Option<PathBuf>, err: io::Error },
    Loop { ancestor: PathBuf, child: PathBuf },
}

// what the (stubbed) traversal delivers next: 0 exhausted, 1 directory, 2 file, 3 link, 4 error
static mut KIND: u8 = 0;
static mut SKIPS: u8 = 0;

fn stub_next(_this: &mut walkdir::IntoIter) -> Option<Result<DirEntry, walkdir::Error>> {
    let kind = unsafe { KIND };
    match kind {
        0 => None,
        4 => Some(Err(unsafe {
            std::mem::transmute::<MirrorError, walkdir::Error>(MirrorError {
                depth: 1,
                inner: MirrorInner::Loop {
                    ancestor: PathBuf::new(),
                    child: PathBuf::new(),
                },
            })
        })),
        kind => Some(Ok(fabricate(kind))),
    }
}

fn stub_skip(_this: &mut walkdir::IntoIter) {
    unsafe {
        SKIPS += 1;
    }
}

/// `skip_current_dir` is issued iff the most recently yielded item is `Ok(directory entry)`;
/// never after a file, a link, an error or exhaustion -- whatever `is_dir` was before.
#[kani::proof]
#[kani::unwind(6)]
#[kani::stub(<walkdir::IntoIter as std::iter::Iterator>::next, stub_next)]
#[kani::stub(walkdir::IntoIter::skip_current_dir, stub_skip)]
fn walktree_cancel_guard() {
    assert!(std::mem::size_of::<MirrorError>() == std::mem::size_of::<walkdir::Error>());
    let kind: u8 = kani::any();
    kani::assume(kind < 5);
    unsafe {
        KIND = kind;
    }
    // built by the real constructor (a struct literal would stop compiling, and the check turn
    // inconclusive, as soon as the type gains a field); the flag left by earlier history is arbitrary
    let mut tree = WalkTree::with_pivot_and_behavior(PathBuf::from("x"), 0, WalkBehavior::default());
    tree.is_dir = kani::any();
    let item = tree.next();
    match kind {
        0 => assert!(item.is_none()),
        4 => assert!(matches!(item, Some(Err(_)))),
        _ => assert!(matches!(item, Some(Ok(_)))),
    }
    tree.cancel_walk_tree();
    let skips = unsafe { SKIPS };
    assert!(skips == if kind == 1 { 1 } else { 0 });
    kani::cover!(kind == 1 && skips == 1);
    kani::cover!(kind == 4);
    std::mem::forget(item);
    std::mem::forget(tree);
}

// what the (stubbed) traversal delivers first and second, and at which walkdir depths
static mut KINDS: [u8; 2] = [0; 2];
static mut DEPTHS: [usize; 2] = [1; 2];
static mut DELIVERED: usize = 0;

fn stub_next_sequence(_this: &mut walkdir::IntoIter) -> Option<Result<DirEntry, walkdir::Error>> {
    let (kind, depth) = unsafe {
        let i = if DELIVERED < 2 { DELIVERED } else { 1 };
        DELIVERED += 1;
        (KINDS[i], DEPTHS[i])
    };
    match kind {
        0 => None,
        4 => Some(Err(unsafe {
            std::mem::transmute::<MirrorError, walkdir::Error>(MirrorError {
                depth,
                inner: MirrorInner::Loop {
                    ancestor: PathBuf::new(),
                    child: PathBuf::new(),
                },
            })
        })),
        kind => {
            let mut entry = unsafe { std::mem::transmute::<DirEntry, MirrorDirEntry>(fabricate(kind)) };
            entry.depth = depth;
            Some(Ok(unsafe { std::mem::transmute::<MirrorDirEntry, DirEntry>(entry) }))
        },
    }
}

/// A history of two deliveries from a walk built by the real constructor: every tree discard that
/// follows a directory is forwarded to the traversal, whatever was delivered and discarded before
/// it and at whatever depths (consecutive sibling directories, a shallower or deeper directory
/// after a discarded one, a discard after a file or a link in between). A discard is issued
/// after each delivery or only after the second one.
#[kani::proof]
#[kani::unwind(6)]
#[kani::stub(<walkdir::IntoIter as std::iter::Iterator>::next, stub_next_sequence)]
#[kani::stub(walkdir::IntoIter::skip_current_dir, stub_skip)]
fn walktree_cancel_history() {
    let k0: u8 = kani::any();
    let k1: u8 = kani::any();
    // (error items are left to the single-step harness: two fabricated `walkdir::Error` values in
    // one run make CBMC report spurious deallocation failures in their drop glue)
    kani::assume(k0 >= 1 && k0 < 4 && k1 >= 1 && k1 < 4);
    let d0: usize = kani::any();
    let d1: usize = kani::any();
    kani::assume(d0 >= 1 && d0 < 4 && d1 >= 1 && d1 < 4);
    let cancel_first: bool = kani::any();
    unsafe {
        KINDS = [k0, k1];
        DEPTHS = [d0, d1];
    }
    let mut tree = WalkTree::with_pivot_and_behavior(PathBuf::from("r"), 0, WalkBehavior::default());
    let first = tree.next();
    assert!(first.is_some());
    if cancel_first {
        tree.cancel_walk_tree();
    }
    let after_first = unsafe { SKIPS };
    assert!(after_first == (cancel_first && k0 == 1) as u8);
    let second = tree.next();
    assert!(second.is_some());
    tree.cancel_walk_tree();
    let after_second = unsafe { SKIPS };
    assert!(after_second == after_first + (k1 == 1) as u8);
    kani::cover!(k0 == 1 && k1 == 1 && d0 == d1 && cancel_first && after_second == 2);
    kani::cover!(k0 == 1 && k1 == 1 && d1 < d0 && cancel_first);
    kani::cover!(k0 == 2 && k1 == 1 && after_second == 1);
    std::mem::forget(first);
    std::mem::forget(second);
    std::mem::forget(tree);
}

/// Error conversion preserves depth and path; the `expect("incongruent ...")`s are unreachable.
#[kani::proof]
#[kani::unwind(6)]
fn walk_error_from_walkdir_error() {
    assert!(std::mem::size_of::<MirrorError>() == std::mem::size_of::<walkdir::Error>());
    let depth: usize = kani::any();
    let kind: u8 = kani::any();
    kani::assume(kind < 3);
    let inner = match kind {
        0 => MirrorInner::Io {
            path: None,
            err: io::Error::from(io::ErrorKind::PermissionDenied),
        },
        1 => MirrorInner::Io {
            path: Some(PathBuf::from("x/y")),
            err: io::Error::from(io::ErrorKind::NotFound),
        },
        _ => MirrorInner::Loop {
            ancestor: PathBuf::from("x"),
            child: PathBuf::from("x/l"),
        },
    };
    let error: walkdir::Error = unsafe { std::mem::transmute(MirrorError { depth, inner }) };
    let error = WalkError::from(error);
    assert!(error.depth() == depth);
    {
        use std::os::unix::ffi::OsStrExt;
        match kind {
            0 => assert!(error.path().is_none()),
            1 => {
                let p = error.path().unwrap().as_os_str().as_bytes();
                assert!(p.len() == 3 && p[0] == b'x' && p[1] == b'/' && p[2] == b'y');
                assert!(matches!(error.kind, WalkErrorKind::Io { .. }));
            },
            _ => {
                let p = error.path().unwrap().as_os_str().as_bytes();
                assert!(p.len() == 3 && p[0] == b'x' && p[1] == b'/' && p[2] == b'l');
                assert!(matches!(error.kind, WalkErrorKind::LinkCycle { .. }));
            },
        }
    }
    kani::cover!(kind == 2);
    std::mem::forget(error);
}

// ---- WalkDir builder recorders (C15) ----
static mut FOLLOW: u8 = 2;
static mut MIN: Option<usize> = None;
static mut MAX: Option<usize> = None;

fn stub_follow_links(this: WalkDir, yes: bool) -> WalkDir {
    unsafe {
        FOLLOW = yes as u8;
    }
    this
}

fn stub_min_depth(this: WalkDir, depth: usize) -> WalkDir {
    unsafe {
        MIN = Some(depth);
    }
    this
}

fn stub_max_depth(this: WalkDir, depth: usize) -> WalkDir {
    unsafe {
        MAX = Some(depth);
    }
    this
}

fn any_depth_behavior() -> DepthBehavior {
    let kind: u8 = kani::any();
    let a: usize = kani::any();
    let b: usize = kani::any();
    match kind % 4 {
        0 => DepthBehavior::Unbounded,
        1 => DepthBehavior::Max(DepthMax(a)),
        2 => DepthMin::from_min_or_unbounded(a),
        _ => DepthMinMax::from_depths_or_max(a, b),
    }
}

/// Links are followed iff `ReadTarget`; the depths handed to walkdir are the ones the translation
/// functions return, and a setter is only called for a bound that is configured.
#[kani::proof]
#[kani::unwind(6)]
#[kani::stub(walkdir::WalkDir::follow_links, stub_follow_links)]
#[kani::stub(walkdir::WalkDir::min_depth, stub_min_depth)]
#[kani::stub(walkdir::WalkDir::max_depth, stub_max_depth)]
fn walktree_configuration() {
    let link = if kani::any() {
        LinkBehavior::ReadTarget
    }
    else {
        LinkBehavior::ReadFile
    };
    let depth = any_depth_behavior();
    let pivot: usize = kani::any();
    let tree = WalkTree::with_pivot_and_behavior(PathBuf::from("r"), pivot, WalkBehavior { depth, link });
    let (follow, min, max) = unsafe { (FOLLOW, MIN, MAX) };
    assert!(follow == matches!(link, LinkBehavior::ReadTarget) as u8);
    match depth {
        DepthBehavior::Unbounded => assert!(min.is_none() && max.is_none()),
        DepthBehavior::Max(m) => assert!(min.is_none() && max == Some(m.max_at_pivot(pivot))),
        DepthBehavior::Min(m) => assert!(max.is_none() && min == Some(m.min_at_pivot(pivot))),
        DepthBehavior::MinMax(mm) => {
            let (lo, hi) = mm.min_max_at_pivot(pivot);
            assert!(min == Some(lo) && max == Some(hi));
        },
    }
    assert!(!tree.is_dir);
    kani::cover!(matches!(depth, DepthBehavior::MinMax(_)) && follow == 1);
    std::mem::forget(tree);
}
