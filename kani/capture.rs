// (no harness is mounted in `capture`; the mount point exists so that one can be added without a
// new hook commit)
