// Kani harnesses mounted inside `crate::token`.
// C17 kernel: partitioning a glob that begins with a rooted tree wildcard (`/**`...) dissociates
// the token from the root separator by moving its span.
use super::*;

/// For every span (full width) of at least the length of the root separator, and every wildcard
/// kind: unrooting a rooted tree wildcard moves the start of the span forward by exactly the bytes
/// it reports (the root separator), keeps the end of the span where it was, and clears the root;
/// any other wildcard is left alone and reports zero bytes.
#[kani::proof]
fn unroot_moves_span_start_by_reported_bytes() {
    let kind: u8 = kani::any();
    kani::assume(kind < 5);
    let mut wildcard = match kind {
        0 => Wildcard::One,
        1 => Wildcard::ZeroOrMore(Evaluation::Eager),
        2 => Wildcard::ZeroOrMore(Evaluation::Lazy),
        3 => Wildcard::Tree { has_root: false },
        _ => Wildcard::Tree { has_root: true },
    };
    let mut span: Span = kani::any();
    kani::assume(span.1 >= ROOT_SEPARATOR_EXPRESSION.len());
    kani::assume(span.0 <= usize::MAX - span.1);
    let before = span;
    let n = <Wildcard as Unroot<Span>>::unroot(&mut wildcard, &mut span);
    if kind == 4 {
        assert!(n == ROOT_SEPARATOR_EXPRESSION.len());
        assert!(span.0 == before.0 + n);
        assert!(span.0 + span.1 == before.0 + before.1);
        assert!(matches!(wildcard, Wildcard::Tree { has_root: false }));
    }
    else {
        assert!(n == 0);
        assert!(span == before);
    }
    kani::cover!(kind == 4);
    kani::cover!(kind == 3);
    kani::cover!(kind == 1);
}
