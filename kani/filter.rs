// Kani harnesses mounted inside `crate::filter` (private items visible).
// C13 step 1 / C16 kernel: one operation of the separation algebra from an arbitrary pre-state.
use super::*;

struct Counter(u8);

impl CancelWalk for Counter {
    fn cancel_walk_tree(&mut self) {
        self.0 += 1;
    }
}

#[derive(Clone, Copy)]
struct Keep(u8);
#[derive(Clone, Copy)]
struct Gone(u8);

impl From<Keep> for Gone {
    fn from(keep: Keep) -> Self {
        Gone(keep.0)
    }
}

type S = (Keep, TreeResidue<Gone>);

impl Isomeric for S {
    type Substituent<'a> = u8;

    fn substituent(separation: &Separation<Self>) -> Self::Substituent<'_> {
        match separation {
            Separation::Filtrate(ref filtrate) => filtrate.get().0,
            Separation::Residue(ref residue) => residue.get().get().0,
        }
    }
}

// pre-state: 0 = filtrate, 1 = discarded as a file (node residue), 2 = discarded as a tree
fn any_separation(identity: u8) -> (Separation<S>, u8) {
    let state: u8 = kani::any();
    kani::assume(state < 3);
    let separation = match state {
        0 => Separation::from_inner_filtrate(Keep(identity)),
        1 => Separation::from_inner_residue(TreeResidue::Node(Gone(identity))),
        _ => Separation::from_inner_residue(TreeResidue::Tree(Gone(identity))),
    };
    (separation, state)
}

fn rank(separation: &Separation<S>) -> (u8, u8) {
    match separation {
        Separation::Filtrate(filtrate) => (0, filtrate.get().0),
        Separation::Residue(residue) => match residue.get() {
            TreeResidue::Node(gone) => (1, gone.0),
            TreeResidue::Tree(gone) => (2, gone.0),
        },
    }
}

fn max(a: u8, b: u8) -> u8 {
    if a > b {
        a
    }
    else {
        b
    }
}

/// `filter_map_node` / `filter_map_tree` applied to any pre-state with any verdict: the result is
/// max(pre-state, verdict) in the order keep < file < tree, the payload is preserved, and the
/// traversal is cancelled iff the entry becomes a discarded tree in this step (at most once).
#[kani::proof]
fn separation_filter_map_step() {
    let identity: u8 = kani::any();
    let (separation, before) = any_separation(identity);
    let verdict: u8 = kani::any();
    kani::assume(verdict < 3);
    let mut counter = Counter(0);
    let out = match verdict {
        0 => separation,
        1 => separation.filter_map_node(From::from),
        _ => separation.filter_map_tree(WalkCancellation::unchecked(&mut counter), From::from),
    };
    let (after, payload) = rank(&out);
    assert!(payload == identity);
    assert!(after == max(before, verdict));
    assert!(counter.0 == if verdict == 2 && before < 2 { 1 } else { 0 });
    kani::cover!(before == 0 && verdict == 2);
    kani::cover!(before == 1 && verdict == 2);
    kani::cover!(before == 2 && verdict == 1);
}

/// The same through `filter_tree_by_substituent` (what `FilterEntry` and `Not` call): the verdict
/// function sees the entry whatever the pre-state is.
#[kani::proof]
fn separation_filter_tree_by_substituent_step() {
    let identity: u8 = kani::any();
    let (separation, before) = any_separation(identity);
    let verdict: u8 = kani::any();
    kani::assume(verdict < 3);
    let mut counter = Counter(0);
    let mut seen = 0u8;
    let mut calls = 0u8;
    let out = separation.filter_tree_by_substituent(
        WalkCancellation::unchecked(&mut counter),
        |substituent| {
            seen = substituent;
            calls += 1;
            match verdict {
                0 => None,
                1 => Some(TreeResidue::Node(())),
                _ => Some(TreeResidue::Tree(())),
            }
        },
    );
    let (after, payload) = rank(&out);
    assert!(calls == 1 && seen == identity);
    assert!(payload == identity);
    assert!(after == max(before, verdict));
    assert!(counter.0 == if verdict == 2 && before < 2 { 1 } else { 0 });
    kani::cover!(before == 0 && verdict == 2 && after == 2);
}

/// `Filtrate::{filter_node, filter_tree}` (what the glob walker calls on a fresh entry).
#[kani::proof]
fn filtrate_filter_step() {
    let identity: u8 = kani::any();
    let tree: bool = kani::any();
    let mut counter = Counter(0);
    let filtrate: Filtrate<Keep> = Filtrate::new(Keep(identity));
    let residue: Residue<TreeResidue<Gone>> = if tree {
        filtrate.filter_tree(WalkCancellation::unchecked(&mut counter))
    }
    else {
        filtrate.filter_node()
    };
    match residue.get() {
        TreeResidue::Node(gone) => assert!(!tree && gone.0 == identity && counter.0 == 0),
        TreeResidue::Tree(gone) => assert!(tree && gone.0 == identity && counter.0 == 1),
    }
    kani::cover!(tree);
    kani::cover!(!tree);
}

// Two-item source for `filtrate`: arbitrary first item, then a filtrate, then exhaustion.
struct TwoShot {
    first: u8,
    position: u8,
}

impl SeparatingFilter for TwoShot {
    type Feed = S;

    fn feed(&mut self) -> Option<Separation<S>> {
        let position = self.position;
        self.position += 1;
        match position {
            0 => Some(match self.first {
                0 => Separation::from_inner_filtrate(Keep(10)),
                1 => Separation::from_inner_residue(TreeResidue::Node(Gone(10))),
                _ => Separation::from_inner_residue(TreeResidue::Tree(Gone(10))),
            }),
            1 => Some(Separation::from_inner_filtrate(Keep(11))),
            _ => None,
        }
    }
}

/// `filter::filtrate` yields exactly the filtrate items, in order, and stops at exhaustion.
#[kani::proof]
#[kani::unwind(4)]
fn filtrate_yields_exactly_filtrate() {
    let first: u8 = kani::any();
    kani::assume(first < 3);
    let mut source = TwoShot { first, position: 0 };
    let a = filtrate(&mut source).map(|keep| keep.0);
    let b = filtrate(&mut source).map(|keep| keep.0);
    let c = filtrate(&mut source).map(|keep| keep.0);
    if first == 0 {
        assert!(a == Some(10) && b == Some(11) && c.is_none());
    }
    else {
        assert!(a == Some(11) && b.is_none() && c.is_none());
    }
    kani::cover!(first == 2);
}
