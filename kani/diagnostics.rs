// Kani harnesses mounted inside `crate::diagnostics`.
// C17 kernel: rule errors locate themselves by unions of token spans; the union of two spans that
// lie within the expression and start/end on character boundaries must do so as well.
use super::*;

/// For all spans `a`, `b` within an expression of `len` bytes (full width): the union starts at the
/// smaller start, ends at the larger end (so both of its ends are ends of `a` or `b`, which is what
/// preserves character boundaries), covers both operands and stays within the expression.
#[kani::proof]
fn span_union_is_the_hull() {
    let len: usize = kani::any();
    let a: Span = kani::any();
    let b: Span = kani::any();
    kani::assume(a.0 <= len && a.1 <= len - a.0);
    kani::assume(b.0 <= len && b.1 <= len - b.0);
    let u = a.union(b);
    let (ae, be) = (a.0 + a.1, b.0 + b.1);
    assert!(u.0 == a.0 || u.0 == b.0);
    assert!(u.0 <= a.0 && u.0 <= b.0);
    let ue = u.0 + u.1;
    assert!(ue == ae || ue == be);
    assert!(ue >= ae && ue >= be);
    assert!(ue <= len);
    // symmetric
    let v = b.union(a);
    assert!(u.0 == v.0 && u.1 == v.1);
    kani::cover!(a.0 < b.0 && ae < be && ae < b.0); // disjoint, a first
    kani::cover!(a.0 > b.0 && ae < be); // nested
    kani::cover!(len == usize::MAX && ue == len);
}

/// The span a rule error reports is the span it was built with (primary span, with or without
/// correlated spans), and `split_some` keeps both operands.
#[kani::proof]
fn composite_span_reports_its_span() {
    let s: Span = kani::any();
    let l: Span = kani::any();
    let r: Span = kani::any();
    let plain = CompositeSpan::spanned("here", s);
    assert!(LocatedError::span(&plain) == s);
    let has_left: bool = kani::any();
    let correlated = CorrelatedSpan::split_some(if has_left { Some(l) } else { None }, r);
    match correlated {
        CorrelatedSpan::Contiguous(x) => assert!(!has_left && x == r),
        CorrelatedSpan::Split(x, y) => assert!(has_left && x == l && y == r),
    }
    let composite = CompositeSpan::correlated("here", s, correlated);
    assert!(LocatedError::span(&composite) == s);
    kani::cover!(has_left);
    kani::cover!(!has_left);
}
