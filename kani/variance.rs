// Kani harnesses mounted inside `crate::token::variance`.
// C05 (kernel level): the range algebra every build and query funnels through does not panic.
// C10 (lemma): the algebra is sound for the interval reading of Invariant/Lower/Upper/Both/Unbounded.
use super::*;

use crate::token::variance::invariant::Size;

const SMALL: usize = 1 << 31; // below this, sums and the products used here cannot overflow
const WIDE: usize = 1 << 62; // sums of two operands below this cannot overflow

fn any_nz(limit: usize) -> NonZeroUsize {
    let n: usize = kani::any();
    kani::assume(n != 0 && n < limit);
    NonZeroUsize::new(n).unwrap()
}

// every value satisfying the representation invariant (Both: lower >= 1, extent >= 1, upper
// representable), with magnitudes below `limit`
fn any_bvr(limit: usize) -> BoundedVariantRange {
    let kind: u8 = kani::any();
    kani::assume(kind < 3);
    match kind {
        0 => BoundedVariantRange::Lower(any_nz(limit)),
        1 => BoundedVariantRange::Upper(any_nz(limit)),
        _ => {
            let lower = any_nz(limit);
            let extent = any_nz(limit);
            kani::assume(lower.get().checked_add(extent.get()).is_some());
            BoundedVariantRange::Both { lower, extent }
        },
    }
}

fn any_tv<T>(limit: usize) -> TokenVariance<T>
where
    T: From<usize> + Invariant<Bound = BoundedVariantRange>,
{
    let kind: u8 = kani::any();
    kani::assume(kind < 3);
    match kind {
        0 => {
            let n: usize = kani::any();
            kani::assume(n < limit);
            Variance::Invariant(T::from(n))
        },
        1 => Variance::Variant(Unbounded),
        _ => Variance::Variant(Bounded(any_bvr(limit))),
    }
}

fn bvr_lo_hi(range: &BoundedVariantRange) -> (usize, Option<usize>) {
    match range {
        BoundedVariantRange::Lower(lower) => (lower.get(), None),
        BoundedVariantRange::Upper(upper) => (0, Some(upper.get())),
        BoundedVariantRange::Both { lower, extent } => {
            (lower.get(), Some(lower.get() + extent.get()))
        },
    }
}

fn vr_lo_hi(range: &VariantRange) -> (usize, Option<usize>) {
    match range {
        Unbounded => (0, None),
        Bounded(range) => bvr_lo_hi(range),
    }
}

fn tv_lo_hi<T>(variance: &TokenVariance<T>) -> (usize, Option<usize>)
where
    T: Copy + Into<usize> + Invariant<Bound = BoundedVariantRange>,
{
    match variance {
        Variance::Invariant(n) => ((*n).into(), Some((*n).into())),
        Variance::Variant(range) => vr_lo_hi(range),
    }
}

fn within(bounds: (usize, Option<usize>), x: usize) -> bool {
    x >= bounds.0 && bounds.1.map_or(true, |hi| x <= hi)
}

// the representation invariant of a result
fn well_formed(range: &BoundedVariantRange) -> bool {
    match range {
        BoundedVariantRange::Both { lower, extent } => {
            lower.get().checked_add(extent.get()).is_some()
        },
        _ => true,
    }
}

// ---------------------------------------------------------------------------------------------
// C05: totality below 2^31 -- no panic of any kind is tolerated
// ---------------------------------------------------------------------------------------------

#[kani::proof]
fn total_conjunction_bounded_ranges() {
    let a = any_bvr(SMALL);
    let b = any_bvr(SMALL);
    let c = ops::conjunction(a, b);
    assert!(well_formed(&c));
    kani::cover!(matches!(a, BoundedVariantRange::Upper(_)) && matches!(b, BoundedVariantRange::Lower(_)));
}

#[kani::proof]
fn total_conjunction_depth_variance() {
    let a = any_tv::<Depth>(SMALL);
    let b = any_tv::<Depth>(SMALL);
    let _ = ops::conjunction(a, b);
    kani::cover!(a.is_unbounded() && !b.is_unbounded());
}

#[kani::proof]
fn total_conjunction_size_variance() {
    let a = any_tv::<Size>(SMALL);
    let b = any_tv::<Size>(SMALL);
    let _ = ops::conjunction(a, b);
    kani::cover!(a.is_invariant() && b.is_variant());
}

// unions, bound conversions: full width
#[kani::proof]
fn total_disjunction_depth_variance() {
    let a = any_tv::<Depth>(usize::MAX);
    let b = any_tv::<Depth>(usize::MAX);
    let _ = ops::disjunction(a, b);
    kani::cover!(a.is_invariant() && b.is_invariant());
}

#[kani::proof]
fn total_union_and_openings() {
    let a = any_bvr(usize::MAX);
    let b = any_bvr(usize::MAX);
    let _: VariantRange = ops::disjunction(a, b);
    let _ = a.opened_lower_bound();
    let _ = a.opened_upper_bound();
    let _ = a.lower().into_usize();
    let _ = a.upper().into_usize();
    kani::cover!(matches!(a, BoundedVariantRange::Both { .. }));
}

#[kani::proof]
fn total_from_closed_and_open() {
    let closed: usize = kani::any();
    let open: Option<usize> = kani::any();
    let range = NaturalRange::from_closed_and_open(closed, open);
    let lower = range.lower().into_usize();
    let upper = range.upper().into_usize();
    // the documented reading: bounds are reordered, zero/None are open
    let (lo, hi) = match open {
        Some(open) if closed > open => (open, Some(closed)),
        _ => (closed, open),
    };
    assert!(lower == lo);
    assert!(upper == hi || (hi == Some(0) && upper == Some(0)) || (lo == 0 && hi == Some(0)));
    kani::cover!(matches!(range, Variance::Invariant(_)));
}

#[kani::proof]
fn total_translation() {
    let a = any_bvr(SMALL);
    let vector: usize = kani::any();
    kani::assume(vector < SMALL);
    let c = a.translation(vector);
    assert!(well_formed(&c));
    kani::cover!(vector > 0);
}

// ---------------------------------------------------------------------------------------------
// C05: full width -- the checked_add().expect("overflow ...") of a sum is reachable (known finding)
// ---------------------------------------------------------------------------------------------

#[kani::proof]
fn full_width_conjunction_lower_bounds() {
    let a = BoundedVariantRange::Lower(any_nz(usize::MAX));
    let b = BoundedVariantRange::Lower(any_nz(usize::MAX));
    let _ = ops::conjunction(a, b);
}

// ---------------------------------------------------------------------------------------------
// C10 lemma: soundness of the algebra (operands below 2^62 so that the sums exist)
// ---------------------------------------------------------------------------------------------

#[kani::proof]
fn sound_conjunction_bounded_ranges() {
    let a = any_bvr(WIDE);
    let b = any_bvr(WIDE);
    let x: usize = kani::any();
    let y: usize = kani::any();
    kani::assume(x < WIDE && y < WIDE);
    kani::assume(within(bvr_lo_hi(&a), x) && within(bvr_lo_hi(&b), y));
    let c = ops::conjunction(a, b);
    assert!(within(bvr_lo_hi(&c), x + y));
    kani::cover!(matches!(a, BoundedVariantRange::Upper(_)) && matches!(b, BoundedVariantRange::Lower(_)));
    kani::cover!(matches!(a, BoundedVariantRange::Both { .. }) && matches!(b, BoundedVariantRange::Both { .. }));
}

#[kani::proof]
fn sound_conjunction_depth_variance() {
    let a = any_tv::<Depth>(WIDE);
    let b = any_tv::<Depth>(WIDE);
    let x: usize = kani::any();
    let y: usize = kani::any();
    kani::assume(x < WIDE && y < WIDE);
    kani::assume(within(tv_lo_hi(&a), x) && within(tv_lo_hi(&b), y));
    let c = ops::conjunction(a, b);
    assert!(within(tv_lo_hi(&c), x + y));
    kani::cover!(a.is_unbounded() && b.is_invariant());
    kani::cover!(a.is_invariant() && b.is_invariant());
}

#[kani::proof]
fn sound_disjunction_depth_variance() {
    let a = any_tv::<Depth>(WIDE);
    let b = any_tv::<Depth>(WIDE);
    let x: usize = kani::any();
    kani::assume(within(tv_lo_hi(&a), x) || within(tv_lo_hi(&b), x));
    let c = ops::disjunction(a, b);
    assert!(within(tv_lo_hi(&c), x));
    kani::cover!(a.is_invariant() && b.is_invariant() && a != b);
    kani::cover!(a.is_invariant() && b.is_variant());
}

#[kani::proof]
fn sound_opened_upper_bound() {
    let a = any_bvr(WIDE);
    let x: usize = kani::any();
    kani::assume(x >= bvr_lo_hi(&a).0);
    let c = a.opened_upper_bound();
    assert!(within(vr_lo_hi(&c), x));
    kani::cover!(matches!(a, BoundedVariantRange::Both { .. }));
}

// products: the repetition range comes from a constant table (a symbolic x symbolic 64-bit product
// does not finish in CBMC); the body variance is symbolic below 2^40
fn const_range<const KIND: u8, const A: usize, const B: usize>() -> NaturalRange {
    match KIND {
        0 => Variance::Invariant(A),
        1 => Variance::Variant(Unbounded),
        2 => Variance::Variant(Bounded(BoundedVariantRange::Lower(NonZeroUsize::new(A).unwrap()))),
        3 => Variance::Variant(Bounded(BoundedVariantRange::Upper(NonZeroUsize::new(A).unwrap()))),
        _ => Variance::Variant(Bounded(BoundedVariantRange::Both {
            lower: NonZeroUsize::new(A).unwrap(),
            extent: NonZeroUsize::new(B).unwrap(),
        })),
    }
}

fn range_lo_hi(range: &NaturalRange) -> (usize, Option<usize>) {
    match range {
        Variance::Invariant(n) => (*n, Some(*n)),
        Variance::Variant(range) => vr_lo_hi(range),
    }
}

// body matched K times (K in the repetition range), each time with a depth inside `a`: the total
// t with K*lo(a) <= t <= K*hi(a) lies inside the product
fn product_case<const KIND: u8, const A: usize, const B: usize, const K: usize>() {
    let a = any_tv::<Depth>(1 << 40);
    let r = const_range::<KIND, A, B>();
    assert!(within(range_lo_hi(&r), K));
    let t: usize = kani::any();
    let (lo, hi) = tv_lo_hi(&a);
    kani::assume(K * lo <= t);
    match hi {
        Some(hi) => kani::assume(t <= K * hi),
        None => kani::assume(K > 0 || t == 0),
    }
    let p = ops::product(a, r);
    assert!(within(tv_lo_hi(&p), t));
    kani::cover!(a.is_variant());
    kani::cover!(a.is_invariant());
}

macro_rules! product_harness {
    ($name:ident, $kind:expr, $a:expr, $b:expr, $k:expr) => {
        #[kani::proof]
        fn $name() {
            product_case::<$kind, $a, $b, $k>();
        }
    };
}

product_harness!(sound_product_exactly_0, 0, 0, 0, 0);
product_harness!(sound_product_exactly_1, 0, 1, 0, 1);
product_harness!(sound_product_exactly_3, 0, 3, 0, 3);
product_harness!(sound_product_unbounded_k0, 1, 0, 0, 0);
product_harness!(sound_product_unbounded_k7, 1, 0, 0, 7);
product_harness!(sound_product_lower2_k2, 2, 2, 0, 2);
product_harness!(sound_product_lower2_k7, 2, 2, 0, 7);
product_harness!(sound_product_upper3_k0, 3, 3, 0, 0);
product_harness!(sound_product_upper3_k3, 3, 3, 0, 3);
product_harness!(sound_product_upper1_k1, 3, 1, 0, 1);
product_harness!(sound_product_both_1_3_k1, 4, 1, 2, 1);
product_harness!(sound_product_both_2_5_k4, 4, 2, 3, 4);
product_harness!(sound_product_both_2_5_k5, 4, 2, 3, 5);
product_harness!(sound_product_both_1_2_k2, 4, 1, 1, 2);

// ---------------------------------------------------------------------------------------------
// C10 (lemma): the termination table. A depth term is a count of separators together with a
// termination that says whether the text it stands for begins and / or ends at a component
// boundary (First: begins with a separator, Last: ends with one, Closed: both, Open: neither);
// finalizing turns the count of separators into a count of components. The table
// `Conjunction for Termination` decides the termination of a concatenation. Coalescent terms (tree
// wildcards, which carry component counts) are outside this lemma.
// ---------------------------------------------------------------------------------------------

use crate::token::variance::invariant::{SeparatedTerm, Termination};

fn any_plain_termination() -> (Termination, bool, bool) {
    let k: u8 = kani::any();
    kani::assume(k < 4);
    match k {
        0 => (Termination::Open, false, false),
        1 => (Termination::First, true, false),
        2 => (Termination::Last, false, true),
        _ => (Termination::Closed, true, true),
    }
}

/// For every pair of non-coalescent terminations whose junction is well formed (the left text
/// does not end with a separator where the right text begins with one) and all separator counts
/// below 2^31: the concatenation begins as the left text begins and ends as the right text ends,
/// its separator count is the sum, and finalizing it yields the number of components of the
/// concatenated text: separators + 1, minus one for each end that is a separator.
#[kani::proof]
fn sound_termination_table_invariant_depth() {
    use crate::token::variance::invariant::Finalize;
    let (ta, la, ra) = any_plain_termination();
    let (tb, lb, rb) = any_plain_termination();
    kani::assume(!(ra && lb));
    let sa: usize = kani::any();
    let sb: usize = kani::any();
    kani::assume(sa < SMALL && sb < SMALL);
    // a text that begins (ends) with a separator has at least one; Closed text of one separator
    // is the separator itself
    kani::assume(sa >= (la || ra) as usize && sb >= (lb || rb) as usize);
    let a: SeparatedTerm<TokenVariance<Depth>> = SeparatedTerm(ta, Variance::Invariant(Depth::from(sa)));
    let b: SeparatedTerm<TokenVariance<Depth>> = SeparatedTerm(tb, Variance::Invariant(Depth::from(sb)));
    let c = ops::conjunction(a, b);
    let expected = match (la, rb) {
        (false, false) => Termination::Open,
        (true, false) => Termination::First,
        (false, true) => Termination::Last,
        (true, true) => Termination::Closed,
    };
    assert!(c.0 == expected);
    assert!(c.1 == Variance::Invariant(Depth::from(sa + sb)));
    // a lone separator (Closed, one separator) stands for no component; otherwise every end that
    // is a separator takes one component away from separators + 1
    let components = (sa + sb + 1) - (la as usize) - (rb as usize);
    let total = sa + sb;
    let finalized = c.finalize();
    if total >= 1 || !(la && rb) {
        assert!(finalized == Variance::Invariant(Depth::from(components)));
    }
    kani::cover!(ta == Termination::First && tb == Termination::First);
    kani::cover!(ta == Termination::First && tb == Termination::Last);
    kani::cover!(ta == Termination::Closed && tb == Termination::Open);
    kani::cover!(ta == Termination::Open && tb == Termination::Closed);
}
