// range algebra kernels (C05, C10)
