// Kani harnesses mounted inside the crate root.
// C18 kernel: the meta-character predicates for every `char`, and `escape` on short strings of
// arbitrary `char`s.
use super::*;

#[kani::proof]
fn meta_character_set() {
    let c: char = kani::any();
    let expected = matches!(
        c,
        '?' | '*' | '$' | ':' | '<' | '>' | '(' | ')' | '[' | ']' | '{' | '}' | ','
    );
    assert!(is_meta_character(c) == expected);
    assert!(is_contextual_meta_character(c) == (c == '-'));
    kani::cover!(expected);
    kani::cover!(c == '-');
}

const META: [char; 13] = ['?', '*', '$', ':', '<', '>', '(', ')', '[', ']', '{', '}', ','];

fn any_meta() -> char {
    let i: usize = kani::any();
    kani::assume(i < META.len());
    META[i]
}

/// A meta-character is escaped with exactly one backslash.
#[kani::proof]
#[kani::unwind(6)]
fn escape_meta_char() {
    let a = any_meta();
    let buffer = [a as u8];
    let input = unsafe { std::str::from_utf8_unchecked(&buffer) };
    let e = escape(input);
    let out = e.as_bytes();
    assert!(matches!(e, Cow::Owned(_)));
    assert!(out.len() == 2 && out[0] == b'\\' && out[1] == a as u8);
    kani::cover!(a == ',');
    std::mem::forget(e);
}

/// Any other character (all of `char`) is returned unchanged, borrowed from the input.
#[kani::proof]
#[kani::unwind(6)]
fn escape_non_meta_char() {
    let a: char = kani::any();
    kani::assume(!is_meta_character(a));
    let mut buffer = [0u8; 4];
    let input: &str = a.encode_utf8(&mut buffer);
    let (at, len) = (input.as_ptr(), input.len());
    let e = escape(input);
    assert!(matches!(e, Cow::Borrowed(_)));
    assert!(e.as_ptr() == at && e.len() == len);
    kani::cover!(len == 4);
    kani::cover!(a == '-');
    std::mem::forget(e);
}

/// Two arbitrary non-meta characters (all of `char` x `char`): unchanged and borrowed.
#[kani::proof]
#[kani::unwind(10)]
fn escape_two_non_meta_chars() {
    let a: char = kani::any();
    let b: char = kani::any();
    kani::assume(!is_meta_character(a) && !is_meta_character(b));
    let mut buffer = [0u8; 8];
    let n = a.encode_utf8(&mut buffer[..4]).len();
    let m = b.encode_utf8(&mut buffer[n..n + 4]).len();
    let input = unsafe { std::str::from_utf8_unchecked(&buffer[..n + m]) };
    let (at, len) = (input.as_ptr(), input.len());
    let e = escape(input);
    assert!(matches!(e, Cow::Borrowed(_)));
    assert!(e.as_ptr() == at && e.len() == len);
    kani::cover!(len == 8);
    std::mem::forget(e);
}
