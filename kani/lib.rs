// Kani harnesses mounted inside the crate root.
// C18 kernel: the meta-character predicates for every `char`, and `escape` on short strings of
// arbitrary `char`s.
use super::*;

#[kani::proof]
fn meta_character_set() {
    let c: char = kani::any();
    let expected = matches!(
        c,
        '?' | '*' | '$' | ':' | '<' | '>' | '(' | ')' | '[' | ']' | '{' | '}' | ','
    );
    assert!(is_meta_character(c) == expected);
    assert!(is_contextual_meta_character(c) == (c == '-'));
    kani::cover!(expected);
    kani::cover!(c == '-');
}

#[kani::proof]
#[kani::unwind(6)]
fn escape_one_char() {
    let a: char = kani::any();
    let mut s = String::new();
    s.push(a);
    let e = escape(&s);
    let borrowed = matches!(e, Cow::Borrowed(_));
    let mut it = e.chars();
    if is_meta_character(a) {
        assert!(it.next() == Some('\\'));
    }
    assert!(it.next() == Some(a));
    assert!(it.next().is_none());
    // strings without meta-characters are returned unchanged (borrowed)
    assert!(borrowed == !is_meta_character(a));
    kani::cover!(is_meta_character(a));
    kani::cover!(!is_meta_character(a) && a.len_utf8() == 4);
    std::mem::forget(e);
    std::mem::forget(s);
}

#[kani::proof]
#[kani::unwind(10)]
fn escape_two_chars() {
    let a: char = kani::any();
    let b: char = kani::any();
    let mut s = String::new();
    s.push(a);
    s.push(b);
    let e = escape(&s);
    let borrowed = matches!(e, Cow::Borrowed(_));
    let mut it = e.chars();
    for c in [a, b] {
        if is_meta_character(c) {
            assert!(it.next() == Some('\\'));
        }
        assert!(it.next() == Some(c));
    }
    assert!(it.next().is_none());
    assert!(borrowed == !(is_meta_character(a) || is_meta_character(b)));
    kani::cover!(is_meta_character(a) && !is_meta_character(b));
    std::mem::forget(e);
    std::mem::forget(s);
}
