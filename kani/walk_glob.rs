// Kani harnesses mounted inside `crate::walk::glob` (private items of `walk::glob` and of its
// ancestor `walk` are visible).
//
// C13 step 2, C16, C20 (pass-through): one `feed()` step of stacks of the REAL `FilterEntry` and
// `Not` combinators over a one-shot symbolic source.
// C03 step: the REAL `FilterAny::residue` / `FilterAnyProgram::residue` with regex verdicts stubbed.
// C02 step / C14 rows: see `closure` and `rows` below.
use super::*;

use crate::filter::{CancelWalk, Filtrate, Residue, SeparatingFilter, TreeResidue};
use crate::walk::{FilterEntry, Not, WalkErrorKind};

// ---------------------------------------------------------------------------------------------
// one-shot symbolic source
// ---------------------------------------------------------------------------------------------

#[derive(Clone, Debug)]
struct MockEntry(u8);

impl Entry for MockEntry {
    fn into_path(self) -> PathBuf {
        PathBuf::new()
    }

    fn path(&self) -> &Path {
        Path::new("")
    }

    fn root_relative_paths(&self) -> (&Path, &Path) {
        (Path::new("r"), Path::new("x/y"))
    }

    fn metadata(&self) -> Result<Metadata, WalkError> {
        Err(WalkError {
            depth: 0,
            kind: WalkErrorKind::LinkCycle {
                root: PathBuf::new(),
                leaf: PathBuf::new(),
            },
        })
    }

    fn file_type(&self) -> FileType {
        loop {}
    }

    fn depth(&self) -> usize {
        self.0 as usize
    }
}

type Feed = (Result<MockEntry, WalkError>, TreeResidue<MockEntry>);

const IDENTITY: u8 = 7;

struct Source {
    // 0 = filtrate (an entry nobody discarded), 1 = discarded as a file upstream, 2 = discarded as
    // a tree upstream, 3 = an error item
    state: u8,
    error_depth: usize,
    done: bool,
    cancels: u8,
}

impl Iterator for Source {
    type Item = Result<MockEntry, WalkError>;

    fn next(&mut self) -> Option<Self::Item> {
        None
    }
}

impl CancelWalk for Source {
    fn cancel_walk_tree(&mut self) {
        self.cancels += 1;
    }
}

impl SeparatingFilter for Source {
    type Feed = Feed;

    fn feed(&mut self) -> Option<Separation<Feed>> {
        if self.done {
            return None;
        }
        self.done = true;
        Some(match self.state {
            0 => Separation::from(Filtrate::new(Ok(MockEntry(IDENTITY)))),
            1 => Separation::from(Residue::new(TreeResidue::Node(MockEntry(IDENTITY)))),
            2 => Separation::from(Residue::new(TreeResidue::Tree(MockEntry(IDENTITY)))),
            _ => Separation::from(Filtrate::new(Err(WalkError {
                depth: self.error_depth,
                kind: WalkErrorKind::LinkCycle {
                    root: PathBuf::new(),
                    leaf: PathBuf::new(),
                },
            }))),
        })
    }
}

trait Cancels {
    fn cancels(&self) -> u8;
}

impl Cancels for Source {
    fn cancels(&self) -> u8 {
        self.cancels
    }
}

impl<I: Cancels, F> Cancels for FilterEntry<I, F> {
    fn cancels(&self) -> u8 {
        self.input.cancels()
    }
}

impl<I: Cancels> Cancels for Not<I> {
    fn cancels(&self) -> u8 {
        self.input.cancels()
    }
}

fn verdict(v: u8) -> Option<EntryResidue> {
    match v {
        0 => None,
        1 => Some(EntryResidue::File),
        _ => Some(EntryResidue::Tree),
    }
}

fn any_verdict() -> u8 {
    let v: u8 = kani::any();
    kani::assume(v < 3);
    v
}

static mut F_CALLS: [u8; 3] = [0; 3];
static mut N_CALLS: u8 = 0;
static mut N_VERDICTS: [u8; 3] = [0; 3];

// Environment stub: the verdict of a negation is arbitrary (the property quantifies over all
// discard positions); it records that it was consulted with the right entry.
fn stub_residue(_this: &FilterAny, entry: &dyn Entry) -> Option<EntryResidue> {
    assert!(entry.depth() == IDENTITY as usize);
    let v = any_verdict();
    unsafe {
        N_VERDICTS[N_CALLS as usize] = v;
        N_CALLS += 1;
    }
    verdict(v)
}

fn any_source() -> Source {
    let state: u8 = kani::any();
    kani::assume(state < 4);
    Source {
        state,
        error_depth: kani::any(),
        done: false,
        cancels: 0,
    }
}

fn f_layer<I>(
    input: I,
    index: usize,
    w: u8,
) -> FilterEntry<I, impl FnMut(&dyn Entry) -> Option<EntryResidue>>
where
    I: FileIterator,
{
    input.filter_entry(move |entry| {
        assert!(entry.depth() == IDENTITY as usize);
        unsafe {
            F_CALLS[index] += 1;
        }
        verdict(w)
    })
}

// The negation carries both partition programs (never constructed or run: every consultation of a
// regex is answered arbitrarily by `stub_is_match_any`), so that any code path that asks the
// patterns about an item -- not only the stubbed `FilterAny::residue` -- gets every possible answer.
fn n_layer<I>(input: I) -> Not<I> {
    Not {
        input,
        filter: FilterAny {
            program: FilterAnyProgram::Partitioned {
                exhaustive: zeroed_regex(),
                nonexhaustive: zeroed_regex(),
            },
        },
    }
}

fn stub_is_match_any(_this: &Regex, _haystack: &str) -> bool {
    kani::any()
}

fn max(a: u8, b: u8) -> u8 {
    if a > b {
        a
    }
    else {
        b
    }
}

/// Feeds the stack once and checks the C13 / C16 / C20 post-conditions.
fn check<I>(mut stack: I, state: u8, error_depth: usize, filters: usize, negations: u8, w: [u8; 3])
where
    I: SeparatingFilter<Feed = Feed> + Cancels,
{
    let out = stack.feed().unwrap();
    let cancels = stack.cancels();
    let (f_calls, n_calls, n_verdicts) = unsafe { (F_CALLS, N_CALLS, N_VERDICTS) };
    let rank = match &out {
        Separation::Filtrate(filtrate) => match filtrate.get() {
            Ok(entry) => {
                assert!(entry.0 == IDENTITY);
                0
            },
            Err(error) => {
                // C20: the error item is passed through unchanged
                assert!(error.depth() == error_depth);
                assert!(matches!(error.kind, WalkErrorKind::LinkCycle { .. }));
                3
            },
        },
        Separation::Residue(residue) => match residue.get() {
            TreeResidue::Node(entry) => {
                assert!(entry.0 == IDENTITY);
                1
            },
            TreeResidue::Tree(entry) => {
                assert!(entry.0 == IDENTITY);
                2
            },
        },
    };
    if state == 3 {
        // C20: errors are not shown to any verdict function, cancel nothing, stay filtrate
        assert!(rank == 3);
        assert!(n_calls == 0 && f_calls[0] == 0 && f_calls[1] == 0 && f_calls[2] == 0);
        assert!(cancels == 0);
    }
    else {
        // C16: every layer observes the entry exactly once, whatever upstream layers decided
        let mut i = 0;
        while i < 3 {
            assert!(f_calls[i] == if i < filters { 1 } else { 0 });
            i += 1;
        }
        assert!(n_calls == negations);
        // C16: the result is the strongest verdict (keep < file < tree): order independent,
        // never un-filtered, never downgraded
        let mut expected = state;
        let mut i = 0;
        while i < filters {
            expected = max(expected, w[i]);
            i += 1;
        }
        let mut i = 0;
        while i < negations as usize {
            expected = max(expected, n_verdicts[i]);
            i += 1;
        }
        assert!(rank == expected);
        // C13: the traversal is cancelled exactly once iff the entry becomes a discarded tree in
        // this step, and never otherwise
        assert!(cancels == if expected == 2 && state != 2 { 1 } else { 0 });
    }
    kani::cover!(state == 0 && rank == 2);
    kani::cover!(state == 1 && rank == 2);
    kani::cover!(state == 3);
    kani::cover!(state == 0 && rank == 0);
    std::mem::forget(out);
    std::mem::forget(stack);
}

macro_rules! step_harness {
    ($name:ident, |$src:ident, $w:ident| $build:expr, $filters:expr, $negations:expr) => {
        #[kani::proof]
        #[kani::stub(crate::walk::glob::FilterAny::residue, stub_residue)]
        #[kani::stub(regex::Regex::is_match, stub_is_match_any)]
        fn $name() {
            let $src = any_source();
            let state = $src.state;
            let error_depth = $src.error_depth;
            let $w = [any_verdict(), any_verdict(), any_verdict()];
            let stack = $build;
            check(stack, state, error_depth, $filters, $negations, $w);
        }
    };
}

step_harness!(step_f, |s, w| f_layer(s, 0, w[0]), 1, 0);
step_harness!(step_n, |s, w| n_layer(s), 0, 1);
step_harness!(step_ff, |s, w| f_layer(f_layer(s, 0, w[0]), 1, w[1]), 2, 0);
step_harness!(step_fn, |s, w| n_layer(f_layer(s, 0, w[0])), 1, 1);
step_harness!(step_nf, |s, w| f_layer(n_layer(s), 0, w[0]), 1, 1);
step_harness!(step_nn, |s, w| n_layer(n_layer(s)), 0, 2);
step_harness!(step_fff, |s, w| f_layer(f_layer(f_layer(s, 0, w[0]), 1, w[1]), 2, w[2]), 3, 0);
step_harness!(step_fnf, |s, w| f_layer(n_layer(f_layer(s, 0, w[0])), 1, w[1]), 2, 1);
step_harness!(step_nfn, |s, w| n_layer(f_layer(n_layer(s), 0, w[0])), 1, 2);
step_harness!(step_ffn, |s, w| n_layer(f_layer(f_layer(s, 0, w[0]), 1, w[1])), 2, 1);
step_harness!(step_nff, |s, w| f_layer(f_layer(n_layer(s), 0, w[0]), 1, w[1]), 2, 1);
step_harness!(step_fnn, |s, w| n_layer(n_layer(f_layer(s, 0, w[0]))), 1, 2);
step_harness!(step_nnf, |s, w| f_layer(n_layer(n_layer(s)), 0, w[0]), 1, 2);
step_harness!(step_nnn, |s, w| n_layer(n_layer(n_layer(s))), 0, 3);

// ---------------------------------------------------------------------------------------------
// C03 step: real `FilterAny::residue` -> `FilterAnyProgram::residue`, regex verdicts arbitrary
// ---------------------------------------------------------------------------------------------

static mut EXHAUSTIVE_AT: usize = 0;
static mut NONEXHAUSTIVE_AT: usize = 0;
static mut M_CALLS: [(u8, bool, bool); 4] = [(9, false, false); 4]; // (which, haystack ok, verdict)
static mut M_N: usize = 0;

fn stub_is_match_partition(this: &Regex, haystack: &str) -> bool {
    let at = this as *const Regex as usize;
    let which = unsafe {
        if at == EXHAUSTIVE_AT {
            0
        }
        else if at == NONEXHAUSTIVE_AT {
            1
        }
        else {
            2
        }
    };
    let bytes = haystack.as_bytes();
    let ok = bytes.len() == 3 && bytes[0] == b'x' && bytes[1] == b'/' && bytes[2] == b'y';
    let v: bool = kani::any();
    unsafe {
        M_CALLS[M_N] = (which, ok, v);
        M_N += 1;
    }
    v
}

fn zeroed_regex() -> Regex {
    unsafe { std::mem::MaybeUninit::<Regex>::zeroed().assume_init() }
}

/// Whatever the two partition programs answer: both are consulted only with the entry's
/// root-relative path, `Tree` is answered iff the exhaustive program matched, `File` iff only the
/// nonexhaustive one did, `None` otherwise.
#[kani::proof]
#[kani::unwind(6)]
#[kani::stub(regex::Regex::is_match, stub_is_match_partition)]
fn negation_residue_step() {
    let shape: u8 = kani::any();
    kani::assume(shape < 4);
    let program = match shape {
        0 => FilterAnyProgram::Empty,
        1 => FilterAnyProgram::Exhaustive(zeroed_regex()),
        2 => FilterAnyProgram::Nonexhaustive(zeroed_regex()),
        _ => FilterAnyProgram::Partitioned {
            exhaustive: zeroed_regex(),
            nonexhaustive: zeroed_regex(),
        },
    };
    let filter = FilterAny { program };
    unsafe {
        match filter.program {
            FilterAnyProgram::Exhaustive(ref e) => EXHAUSTIVE_AT = e as *const Regex as usize,
            FilterAnyProgram::Nonexhaustive(ref n) => NONEXHAUSTIVE_AT = n as *const Regex as usize,
            FilterAnyProgram::Partitioned {
                ref exhaustive,
                ref nonexhaustive,
            } => {
                EXHAUSTIVE_AT = exhaustive as *const Regex as usize;
                NONEXHAUSTIVE_AT = nonexhaustive as *const Regex as usize;
            },
            _ => {},
        }
    }
    let entry = MockEntry(IDENTITY);
    let out = filter.residue(&entry);
    let (calls, n) = unsafe { (M_CALLS, M_N) };
    let mut exhaustive = false;
    let mut nonexhaustive = false;
    let mut i = 0;
    while i < n {
        let (which, ok, v) = calls[i];
        assert!(ok); // the haystack is exactly the root-relative path
        assert!(which < 2);
        if which == 0 {
            exhaustive = exhaustive || v;
        }
        else {
            nonexhaustive = nonexhaustive || v;
        }
        i += 1;
    }
    match out {
        Some(EntryResidue::Tree) => assert!(exhaustive && (shape == 1 || shape == 3)),
        Some(EntryResidue::File) => {
            assert!(!exhaustive && nonexhaustive && (shape == 2 || shape == 3))
        },
        None => assert!(!exhaustive && !nonexhaustive),
    }
    // each existing partition is consulted unless the exhaustive one already matched
    match shape {
        0 => assert!(n == 0),
        1 | 2 => assert!(n == 1),
        _ => assert!(n == if exhaustive { 1 } else { 2 }),
    }
    kani::cover!(shape == 3 && matches!(out, Some(EntryResidue::File)));
    kani::cover!(shape == 3 && matches!(out, Some(EntryResidue::Tree)));
    kani::cover!(shape == 3 && out.is_none());
    std::mem::forget(filter);
}

// A root-relative path that is not valid UTF-8 is matched through its lossy conversion (the
// documented behaviour of `CandidatePath`): both partitions are still consulted, with U+FFFD in
// place of the invalid byte.
#[derive(Clone, Debug)]
struct NonUtf8Entry;

impl Entry for NonUtf8Entry {
    fn into_path(self) -> PathBuf {
        PathBuf::new()
    }

    fn path(&self) -> &Path {
        Path::new("")
    }

    fn root_relative_paths(&self) -> (&Path, &Path) {
        use std::os::unix::ffi::OsStrExt;
        (
            Path::new("r"),
            Path::new(std::ffi::OsStr::from_bytes(&[b'x', b'/', 0xFF])),
        )
    }

    fn metadata(&self) -> Result<Metadata, WalkError> {
        loop {}
    }

    fn file_type(&self) -> FileType {
        loop {}
    }

    fn depth(&self) -> usize {
        IDENTITY as usize
    }
}

static mut LOSSY_OK: bool = true;
static mut LOSSY_CALLS: u8 = 0;

fn stub_is_match_lossy(_this: &Regex, haystack: &str) -> bool {
    let b = haystack.as_bytes();
    // "x/" followed by U+FFFD (EF BF BD)
    let ok = b.len() == 5 && b[0] == b'x' && b[1] == b'/' && b[2] == 0xEF && b[3] == 0xBF && b[4] == 0xBD;
    unsafe {
        LOSSY_OK = LOSSY_OK && ok;
        LOSSY_CALLS += 1;
    }
    false
}

#[kani::proof]
#[kani::unwind(8)]
#[kani::stub(regex::Regex::is_match, stub_is_match_lossy)]
fn negation_residue_non_utf8_step() {
    let filter = FilterAny {
        program: FilterAnyProgram::Partitioned {
            exhaustive: zeroed_regex(),
            nonexhaustive: zeroed_regex(),
        },
    };
    let out = filter.residue(&NonUtf8Entry);
    let (ok, calls) = unsafe { (LOSSY_OK, LOSSY_CALLS) };
    assert!(out.is_none());
    assert!(calls == 2); // neither matched, so both partitions were consulted
    assert!(ok);
    kani::cover!(calls == 2);
    std::mem::forget(filter);
}

include!(concat!(env!("WAX_VERIF_DIR"), "/kani/walk_glob_rows.rs"));
