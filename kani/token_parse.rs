// Kani harnesses mounted inside `crate::token::parse`.
// C17 kernel: the span of a parse error. Parser contract assumed (pori `Located`): the entry's
// `fragment` is the rest of the expression starting at byte `location`.
use super::*;

/// For every character at the location of the error (all of `char`, any UTF-8 width), optionally
/// followed by more text, and for the end of the expression (empty fragment), at every location:
/// the span starts at the location, does not exceed the fragment (hence the expression) and ends on
/// a character boundary, so `&expression[start..][..n]` cannot panic; it is not empty unless the
/// error is at the end of the expression.
#[kani::proof]
#[kani::unwind(8)]
fn parse_error_span_is_sliceable() {
    let c: char = kani::any();
    let tail: bool = kani::any();
    let at_end: bool = kani::any();
    let mut buffer = [0u8; 5];
    let n = c.encode_utf8(&mut buffer[..4]).len();
    buffer[n] = b'}';
    let m = if at_end { 0 } else if tail { n + 1 } else { n };
    let fragment = unsafe { std::str::from_utf8_unchecked(&buffer[..m]) };
    let location: usize = kani::any();
    kani::assume(location <= usize::MAX - 8);
    let entry = ErrorEntry {
        fragment: Cow::Borrowed(fragment),
        location,
        kind: NomErrorKind::Context("verif"),
    };
    let (start, len) = LocatedError::span(&entry);
    assert!(start == location);
    assert!(len <= fragment.len());
    assert!(fragment.is_char_boundary(len));
    assert!(at_end || len >= 1);
    kani::cover!(!at_end && n == 4 && tail);
    kani::cover!(!at_end && n == 1 && !tail);
    kani::cover!(at_end);
    std::mem::forget(entry);
}
