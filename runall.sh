#!/bin/bash
# runs every claimed check (quick tier unless TIER is set) on the current tree; prints one line per check
cd "$(dirname "$0")"
for id in $(python3 -c "import json; print(' '.join(c['property_id'] for c in json.load(open('MANIFEST.json'))['checks']))"); do
  s=$(date +%s)
  out=$(./check $id --tier ${TIER:-quick} 2>&1); rc=$?
  e=$(date +%s)
  echo "$id rc=$rc $((e-s))s $(echo "$out" | grep -c '^KNOWN-FINDING') known $(echo "$out" | grep -E '^(VIOLATION|INCONCLUSIVE)' | head -2 | cut -c1-200)"
done
