"""Reproduction of Kani counterexamples against the real build (public API through waxprobe, or
native concrete playback). Each function takes [(harness name, result)] and returns a list of
(roles, record) for what reproduced (empty list = nothing reproduced)."""
import replay_fs
from core import tier


def replay_filter_stack(items):
    n, bad = replay_fs.run_battery(3)
    out = []
    for b in bad[:40]:
        roles = {"filter-stack-mismatch"}
        trees = [l for l in b["stack"] if "tree-dirs" in l]
        if len(trees) >= 2:
            roles.add("tree-verdict-issued-twice")
        out.append((roles, {"short": {"scenario": "real directory walk base=b tree=replay_fs.TREE",
                                      "stack": b["stack"], "missing": b.get("missing"),
                                      "unexpected": b.get("unexpected"),
                                      "observed_diff": b.get("observed_diff")},
                            "battery": n}))
    return out


def replay_walk_errors(items):
    return []


def replay_depth_walks(items):
    return []


def replay_negation_walks(items):
    return []


def replay_escape(items):
    return []


# ---------------------------------------------------------------------------------------------
# depth behaviour: real walks of prefixed globs under (min, max) bounds
# ---------------------------------------------------------------------------------------------

DEPTH_TREE = ["b/", "b/p/", "b/p/q/", "b/p/q/r/", "b/p/q/r/s/", "b/p/q/r/s/t", "b/p/q/f", "b/p/g",
              "b/h", "b/p/q/r/u"]
DEPTH_GLOBS = [("**", 0), ("p/**", 1), ("p/q/**", 2), ("p/q/r/**", 3)]


def _depth_battery():
    from core import probe
    rels = [""] + [t.rstrip("/")[2:] for t in DEPTH_TREE if t != "b/"]
    cmds = []
    meta = []
    for glob, pivot in DEPTH_GLOBS:
        prefix = glob[:-3].rstrip("/")
        for lo in [None, 0, 1, 2, 3, 4]:
            for hi in [None, 0, 1, 2, 3, 4, 5]:
                if lo is None and hi is None:
                    continue
                if lo is not None and hi is not None and lo > hi:
                    continue
                if lo == 0:
                    continue  # DepthBehavior::bounded refuses a zero minimum (observation in DESIGN)
                cmds.append({"op": "walk", "tree": DEPTH_TREE, "base": "b", "glob": glob, "stack": [],
                             "behavior": {"min": lo, "max": hi}})
                meta.append((glob, pivot, prefix, lo, hi))
    rows = probe(cmds)
    bad = []
    for (glob, pivot, prefix, lo, hi), row in zip(meta, rows):
        if not row or not row.get("ok"):
            bad.append({"glob": glob, "min": lo, "max": hi, "error": row})
            continue
        expected = set()
        for r in rels:
            if prefix and not (r == prefix or r.startswith(prefix + "/")):
                continue
            n = len([c for c in r.split("/") if c])
            if (lo is None or n >= lo) and (hi is None or n <= hi):
                expected.add(r)
        got = set(i["relative"] for i in row["items"] if not i.get("error"))
        if got != expected:
            bad.append({"glob": glob, "prefix_depth": pivot, "min": lo, "max": hi,
                        "missing": sorted(expected - got), "unexpected": sorted(got - expected)})
    return len(cmds), bad


def _depth_results(only_below):
    n, bad = _depth_battery()
    out = []
    for b in bad:
        below = b.get("max") is not None and b.get("prefix_depth") is not None and b["max"] < b["prefix_depth"]
        roles = {"depth-walk-mismatch"}
        if below and not b.get("missing") and "error" not in b:
            roles = {"max-below-prefix-depth"}
        out.append((roles, {"short": dict(b, scenario="real walk of glob at base b with DepthBehavior::bounded(min, max)"),
                            "battery": n}))
    return out


def replay_depth_walks(items):
    # failures of the reachable case must reproduce as something other than the known finding
    return [x for x in _depth_results(False) if "max-below-prefix-depth" not in x[0]]


def replay_depth_walks_below(items):
    return _depth_results(True)
