"""Reproduction of Kani counterexamples against the real build (public API through waxprobe, or
native concrete playback). Each function takes [(harness name, result)] and returns a list of
(roles, record) for what reproduced (empty list = nothing reproduced)."""
import replay_fs
from core import tier


def replay_filter_stack(items):
    n, bad = replay_fs.run_battery(3)
    out = []
    for b in bad[:40]:
        roles = {"filter-stack-mismatch"}
        trees = [l for l in b["stack"] if "tree-dirs" in l]
        if len(trees) >= 2:
            roles.add("tree-verdict-issued-twice")
        out.append((roles, {"short": {"scenario": "real directory walk base=b tree=replay_fs.TREE",
                                      "stack": b["stack"], "missing": b.get("missing"),
                                      "unexpected": b.get("unexpected"),
                                      "observed_diff": b.get("observed_diff")},
                            "battery": n}))
    return out


def replay_walk_errors(items):
    return []


def replay_depth_walks(items):
    return []


def replay_negation_walks(items):
    return []


def replay_escape(items):
    return []


# ---------------------------------------------------------------------------------------------
# depth behaviour: real walks of prefixed globs under (min, max) bounds
# ---------------------------------------------------------------------------------------------

DEPTH_TREE = ["b/", "b/p/", "b/p/q/", "b/p/q/r/", "b/p/q/r/s/", "b/p/q/r/s/t", "b/p/q/f", "b/p/g",
              "b/h", "b/p/q/r/u"]
DEPTH_GLOBS = [("**", 0), ("p/**", 1), ("p/q/**", 2), ("p/q/r/**", 3)]


def _depth_battery():
    from core import probe
    rels = [""] + [t.rstrip("/")[2:] for t in DEPTH_TREE if t != "b/"]
    cmds = []
    meta = []
    for glob, pivot in DEPTH_GLOBS:
        prefix = glob[:-3].rstrip("/")
        for lo in [None, 0, 1, 2, 3, 4]:
            for hi in [None, 0, 1, 2, 3, 4, 5]:
                if lo is None and hi is None:
                    continue
                if lo is not None and hi is not None and lo > hi:
                    continue
                if lo == 0:
                    continue  # DepthBehavior::bounded refuses a zero minimum (observation in DESIGN)
                cmds.append({"op": "walk", "tree": DEPTH_TREE, "base": "b", "glob": glob, "stack": [],
                             "behavior": {"min": lo, "max": hi}})
                meta.append((glob, pivot, prefix, lo, hi))
    rows = probe(cmds)
    bad = []
    for (glob, pivot, prefix, lo, hi), row in zip(meta, rows):
        if not row or not row.get("ok"):
            bad.append({"glob": glob, "min": lo, "max": hi, "error": row})
            continue
        expected = set()
        for r in rels:
            if prefix and not (r == prefix or r.startswith(prefix + "/")):
                continue
            n = len([c for c in r.split("/") if c])
            if (lo is None or n >= lo) and (hi is None or n <= hi):
                expected.add(r)
        got = set(i["relative"] for i in row["items"] if not i.get("error"))
        if got != expected:
            bad.append({"glob": glob, "prefix_depth": pivot, "min": lo, "max": hi,
                        "missing": sorted(expected - got), "unexpected": sorted(got - expected)})
    return len(cmds), bad


def _depth_results(only_below):
    n, bad = _depth_battery()
    out = []
    for b in bad:
        below = b.get("max") is not None and b.get("prefix_depth") is not None and b["max"] < b["prefix_depth"]
        roles = {"depth-walk-mismatch"}
        if below and not b.get("missing") and "error" not in b:
            roles = {"max-below-prefix-depth"}
        out.append((roles, {"short": dict(b, scenario="real walk of glob at base b with DepthBehavior::bounded(min, max)"),
                            "battery": n}))
    return out


def replay_depth_walks(items):
    # failures of the reachable case must reproduce as something other than the known finding
    return [x for x in _depth_results(False) if "max-below-prefix-depth" not in x[0]]


def replay_depth_walks_below(items):
    return _depth_results(True)


# ---------------------------------------------------------------------------------------------
# range algebra: public-API reproduction through Glob::new / depth() / is_match
# ---------------------------------------------------------------------------------------------

BIG = [0, 1, 2, 3, 7, 2 ** 31, 2 ** 32, 2 ** 63, 2 ** 64 - 1]


def _bounds_forms():
    out = ["", ":"]
    for a in BIG:
        out.append(":%d" % a)
        out.append(":%d," % a)
        for b in BIG:
            out.append(":%d,%d" % (a, b))
    return out


def panic_role(msg):
    if msg is None:
        return "abort"
    if msg.startswith("overflow determining"):
        return "overflow-near-word-size"
    if "failed to compile glob" in msg:
        return "regex-compile-rejected"
    if "unreachable" in msg:
        return "unreachable-range-operation"
    return "panic-other"


def _algebra_battery():
    """Expressions whose variance computation exercises every operator / operand-shape pair."""
    forms = _bounds_forms()
    small = ["", ":", ":0,2", ":1,", ":2", ":0,1", ":1,3", ":3,", ":18446744073709551615,",
             ":1,18446744073709551615", ":9223372036854775808,", ":0,9223372036854775808"]
    exprs = set()
    for f in forms:
        exprs.add("<a%s>" % f)
        exprs.add("<a/%s>" % f)
        exprs.add("<ab%s>x" % f)
    for f in small:
        for g in small:
            exprs.add("<a%s><b%s>" % (f, g))                 # conjunction
            exprs.add("<a/%s><b/%s>" % (f, g))
            exprs.add("{<a%s>,<b%s>}" % (f, g))              # disjunction
            exprs.add("<<a%s>b%s>" % (f, g))                 # product
            exprs.add("<<a/%s>%s>" % (f, g))
            exprs.add("x<a%s>*<b%s>" % (f, g))
            exprs.add("<a%s>/**/<b%s>" % (f, g))
    return sorted(exprs)


def replay_range_totality(items):
    from core import probe
    exprs = _algebra_battery()
    rows = probe([{"op": "glob", "e": e} for e in exprs])
    out = []
    seen = set()
    for e, row in zip(exprs, rows):
        if row and (row.get("panic") or row.get("abort")):
            role = panic_role(row.get("msg"))
            sig = (role, row.get("loc"))
            if sig in seen:
                continue
            seen.add(sig)
            out.append(({"glob-new-panics", role},
                        {"short": {"expression": e, "panic": row.get("msg"), "location": row.get("loc"),
                                   "scenario": "Glob::new(expression) in a subprocess"},
                         "battery": len(exprs)}))
    return out


def replay_range_soundness(items):
    """depth() against real matching on expressions made of whole components."""
    from core import probe
    shapes = ["x/", "<x/>", "<x/:>", "<x/:0,1>", "<x/:2>", "<x/:1,3>", "<x/:2,>", "<x/:0,2>", "<x/:3>"]
    exprs = set()
    for a in shapes:
        exprs.add(a)
        for b in shapes:
            exprs.add(a + b)
            exprs.add("{%s,%s}" % (a.rstrip("/") if a == "x/" else a, b))
            for f in ["", ":", ":0,1", ":2", ":1,2", ":2,"]:
                exprs.add("<%s%s%s>" % (a, b if b != a else "", f))
    exprs = sorted(exprs)
    rows = probe([{"op": "glob", "e": e} for e in exprs])
    paths = ["x/" * k for k in range(0, 14)]
    live = [(e, r) for e, r in zip(exprs, rows) if r and r.get("ok")]
    ms = probe([{"op": "match", "target": {"glob": e}, "paths": paths} for e, _ in live])
    out = []
    for (e, r), m in zip(live, ms):
        d = r["depth"]
        lo, hi = (d["inv"], d["inv"]) if "inv" in d else ((d["lo"] or 0), d["hi"])
        for k, res in enumerate(m["results"]):
            if res["m"] and not (lo <= k and (hi is None or k <= hi)):
                out.append(({"depth-outside-reported-bounds"},
                            {"short": {"expression": e, "depth": d, "matches": paths[k], "components": k},
                             "battery": len(live)}))
                break
    return out
