"""Reproduction of Kani counterexamples against the real build (public API through waxprobe, or
native concrete playback). Each function takes [(harness name, result)] and returns a list of
(roles, record) for what reproduced (empty list = nothing reproduced)."""
import replay_fs
from core import tier


def replay_filter_stack(items):
    n, bad = replay_fs.run_battery(3)
    out = []
    for b in bad[:40]:
        roles = {"filter-stack-mismatch"}
        trees = [l for l in b["stack"] if "tree-dirs" in l]
        if len(trees) >= 2:
            roles.add("tree-verdict-issued-twice")
        out.append((roles, {"short": {"scenario": "real directory walk base=b tree=replay_fs.TREE",
                                      "stack": b["stack"], "missing": b.get("missing"),
                                      "unexpected": b.get("unexpected"),
                                      "observed_diff": b.get("observed_diff")},
                            "battery": n}))
    return out




def replay_depth_walks(items):
    return []






# ---------------------------------------------------------------------------------------------
# depth behaviour: real walks of prefixed globs under (min, max) bounds
# ---------------------------------------------------------------------------------------------

DEPTH_TREE = ["b/", "b/p/", "b/p/q/", "b/p/q/r/", "b/p/q/r/s/", "b/p/q/r/s/t", "b/p/q/f", "b/p/g",
              "b/h", "b/p/q/r/u"]
DEPTH_GLOBS = [("**", 0), ("p/**", 1), ("p/q/**", 2), ("p/q/r/**", 3)]


def _depth_battery():
    from core import probe
    rels = [""] + [t.rstrip("/")[2:] for t in DEPTH_TREE if t != "b/"]
    cmds = []
    meta = []
    for glob, pivot in DEPTH_GLOBS:
        prefix = glob[:-3].rstrip("/")
        for lo in [None, 0, 1, 2, 3, 4]:
            for hi in [None, 0, 1, 2, 3, 4, 5]:
                if lo is None and hi is None:
                    continue
                if lo is not None and hi is not None and lo > hi:
                    continue
                if lo == 0:
                    continue  # DepthBehavior::bounded refuses a zero minimum (observation in DESIGN)
                cmds.append({"op": "walk", "tree": DEPTH_TREE, "base": "b", "glob": glob, "stack": [],
                             "behavior": {"min": lo, "max": hi}})
                meta.append((glob, pivot, prefix, lo, hi))
    rows = probe(cmds)
    bad = []
    for (glob, pivot, prefix, lo, hi), row in zip(meta, rows):
        if not row or not row.get("ok"):
            bad.append({"glob": glob, "min": lo, "max": hi, "error": row})
            continue
        expected = set()
        for r in rels:
            if prefix and not (r == prefix or r.startswith(prefix + "/")):
                continue
            n = len([c for c in r.split("/") if c])
            if (lo is None or n >= lo) and (hi is None or n <= hi):
                expected.add(r)
        got = set(i["relative"] for i in row["items"] if not i.get("error"))
        if got != expected:
            bad.append({"glob": glob, "prefix_depth": pivot, "min": lo, "max": hi,
                        "missing": sorted(expected - got), "unexpected": sorted(got - expected)})
    return len(cmds), bad


def _depth_results(only_below):
    n, bad = _depth_battery()
    out = []
    for b in bad:
        below = b.get("max") is not None and b.get("prefix_depth") is not None and b["max"] < b["prefix_depth"]
        roles = {"depth-walk-mismatch"}
        if below and not b.get("missing") and "error" not in b:
            roles = {"max-below-prefix-depth"}
        out.append((roles, {"short": dict(b, scenario="real walk of glob at base b with DepthBehavior::bounded(min, max)"),
                            "battery": n}))
    return out


def replay_depth_walks(items):
    # failures of the reachable case must reproduce as something other than the known finding
    return [x for x in _depth_results(False) if "max-below-prefix-depth" not in x[0]]


def replay_depth_walks_below(items):
    return _depth_results(True)


# ---------------------------------------------------------------------------------------------
# range algebra: public-API reproduction through Glob::new / depth() / is_match
# ---------------------------------------------------------------------------------------------

BIG = [0, 1, 2, 3, 7, 2 ** 31, 2 ** 32, 2 ** 63, 2 ** 64 - 1]


def _bounds_forms():
    out = ["", ":"]
    for a in BIG:
        out.append(":%d" % a)
        out.append(":%d," % a)
        for b in BIG:
            out.append(":%d,%d" % (a, b))
    return out


def panic_role(msg, expression=""):
    import re as _re
    if msg is None:
        return "abort"
    if msg.startswith("overflow determining"):
        return "overflow-near-word-size"
    if "failed to compile glob" in msg:
        # the known finding is about repetition bounds the regex back end refuses (beyond its
        # limits); a rejected pattern without such a bound is something else
        if _re.search(r"[:,]\d{4,}", expression) or expression.count("<") >= 3:
            return "regex-compile-rejected"
        return "regex-rejects-generated-pattern"
    if "unreachable" in msg:
        return "unreachable-range-operation"
    return "panic-other"


def _algebra_battery():
    """Expressions whose variance computation exercises every operator / operand-shape pair."""
    forms = _bounds_forms()
    small = ["", ":", ":0,2", ":1,", ":2", ":0,1", ":1,3", ":3,", ":18446744073709551615,",
             ":1,18446744073709551615", ":9223372036854775808,", ":0,9223372036854775808"]
    exprs = set()
    for f in forms:
        exprs.add("<a%s>" % f)
        exprs.add("<a/%s>" % f)
        exprs.add("<ab%s>x" % f)
    for f in small:
        for g in small:
            exprs.add("<a%s><b%s>" % (f, g))                 # conjunction
            exprs.add("<a/%s><b/%s>" % (f, g))
            exprs.add("{<a%s>,<b%s>}" % (f, g))              # disjunction
            exprs.add("<<a%s>b%s>" % (f, g))                 # product
            exprs.add("<<a/%s>%s>" % (f, g))
            exprs.add("x<a%s>*<b%s>" % (f, g))
            exprs.add("<a%s>/**/<b%s>" % (f, g))
    return sorted(exprs)


def replay_range_totality(items):
    from core import probe
    exprs = _algebra_battery()
    rows = probe([{"op": "glob", "e": e} for e in exprs])
    out = []
    seen = set()
    for e, row in zip(exprs, rows):
        if row and (row.get("panic") or row.get("abort")):
            role = panic_role(row.get("msg"), e)
            sig = (role, row.get("loc"))
            if sig in seen:
                continue
            seen.add(sig)
            out.append(({"glob-new-panics", role},
                        {"short": {"expression": e, "panic": row.get("msg"), "location": row.get("loc"),
                                   "scenario": "Glob::new(expression) in a subprocess"},
                         "battery": len(exprs)}))
    return out


def replay_range_soundness(items):
    """depth() against real matching on expressions made of whole components."""
    from core import probe
    shapes = ["x/", "<x/>", "<x/:>", "<x/:0,1>", "<x/:2>", "<x/:1,3>", "<x/:2,>", "<x/:0,2>", "<x/:3>"]
    exprs = set()
    for a in shapes:
        exprs.add(a)
        for b in shapes:
            exprs.add(a + b)
            exprs.add("{%s,%s}" % (a.rstrip("/") if a == "x/" else a, b))
            for f in ["", ":", ":0,1", ":2", ":1,2", ":2,"]:
                exprs.add("<%s%s%s>" % (a, b if b != a else "", f))
    exprs = sorted(exprs)
    rows = probe([{"op": "glob", "e": e} for e in exprs])
    paths = ["x/" * k for k in range(0, 14)]
    live = [(e, r) for e, r in zip(exprs, rows) if r and r.get("ok")]
    ms = probe([{"op": "match", "target": {"glob": e}, "paths": paths} for e, _ in live])
    out = []
    for (e, r), m in zip(live, ms):
        d = r["depth"]
        lo, hi = (d["inv"], d["inv"]) if "inv" in d else ((d["lo"] or 0), d["hi"])
        for k, res in enumerate(m["results"]):
            if res["m"] and not (lo <= k and (hi is None or k <= hi)):
                out.append(({"depth-outside-reported-bounds"},
                            {"short": {"expression": e, "depth": d, "matches": paths[k], "components": k},
                             "battery": len(live)}))
                break
    # expressions whose components begin or end inside a group (the termination table)
    OPEN = [("/a<b/:2>c", ["/ab/b/c"]), ("a<b/:2>c", ["ab/b/c"]), ("/x<a/:1,2>z", ["/xa/z", "/xa/a/z"]),
            ("</a:2></a:1,>", ["/a/a/a", "/a/a/a/a"]), ("/a{b/,c/d/}e", ["/ab/e", "/ac/d/e"]),
            ("**/src{/main,/test/unit}", ["src/main", "x/src/test/unit"]), ("{a,a/b}/{c,c/d}", ["a/c", "a/b/c/d"]),
            ("x{/a,/a/b}y", ["x/ay", "x/a/by"]), ("</a:1,2>b", ["/ab", "/a/ab"]), ("a/{b,c/d}", ["a/b", "a/c/d"])]
    rows = probe([{"op": "glob", "e": e} for e, _ in OPEN])
    ms = probe([{"op": "match", "target": {"glob": e}, "paths": ps} for e, ps in OPEN])
    for (e, ps), r, m in zip(OPEN, rows, ms):
        if not r or not r.get("ok") or not m.get("ok"):
            continue
        d = r["depth"]
        lo, hi = (d["inv"], d["inv"]) if "inv" in d else ((d["lo"] or 0), d["hi"])
        for p, res in zip(ps, m["results"]):
            k = len([c for c in p.split("/") if c])
            if res["m"] and not (lo <= k and (hi is None or k <= hi)):
                out.append(({"depth-outside-reported-bounds"},
                            {"short": {"expression": e, "depth": d, "matches": p, "components": k}}))
                break
    return out


# ---------------------------------------------------------------------------------------------
# walk entries: real walks of prefixed / rooted globs from several spellings of the base
# ---------------------------------------------------------------------------------------------

ENTRY_TREE = ["b/", "b/p/", "b/p/q/", "b/p/q/1/", "b/p/q/1/2", "b/p/1/", "b/p/1/2/", "b/p/1/2/3", "b/1",
              "b/c/", "b/c/p/", "b/c/p/1", "1"]


def _ncomp(p):
    return len([c for c in p.split("/") if c not in ("",)])


def _entry_battery():
    from core import probe
    cmds, meta = [], []
    for base in ["b", "b/", ".", "./b", "b/c", "{ROOT}/b"]:
        for glob in ["**", "p/**", "p/q/**", "../b/**", "{ROOT}/b/p/**", "p/*/2"]:
            if glob.startswith("../") and base in (".", "{ROOT}/b"):
                continue
            cmds.append({"op": "walk", "tree": ENTRY_TREE, "base": base, "glob": glob, "stack": []})
            meta.append((base, glob))
    rows = probe(cmds)
    bad = []
    n_entries = 0
    for (base, glob), row in zip(meta, rows):
        if not row or not row.get("ok"):
            bad.append({"base": base, "glob": glob, "error": str(row)[:200]})
            continue
        rooted = glob.startswith("{ROOT}")
        for it in row["items"]:
            if it.get("error"):
                continue
            n_entries += 1
            problems = []
            if not it["joined_eq"]:
                problems.append("root.join(relative) != path")
            n = _ncomp(it["relative"])
            if rooted:
                if it["root_raw"] != "":
                    problems.append("root segment of a rooted glob is not empty")
                if it["depth"] != n + 1:      # Path::components counts the root directory
                    problems.append("rooted-entry-depth")
            else:
                want = base.replace("{ROOT}", row["tmp"]).rstrip("/")
                if it["root_raw"].rstrip("/") != want:
                    problems.append("root segment is not the directory given to the walk")
                if it["depth"] != n:
                    problems.append("depth != components(relative)")
            if it.get("cand") != it["relative"] or it.get("matched") != it["relative"]:
                problems.append("matched text / candidate path is not the relative segment")
            if problems:
                bad.append({"base": base, "glob": glob, "entry": it["path"], "root": it["root_raw"],
                            "relative": it["relative"], "depth": it["depth"], "problems": problems})
    return len(cmds), n_entries, bad


def _entry_results():
    n, n_entries, bad = _entry_battery()
    out = []
    seen = set()
    for b in bad:
        probs = tuple(b.get("problems", ["error"]))
        key = (b["base"], b["glob"], probs)
        if key in seen:
            continue
        seen.add(key)
        roles = {"walk-entry-inconsistent"}
        if probs == ("rooted-entry-depth",):
            roles = {"rooted-entry-depth"}
        out.append((roles, {"short": dict(b, scenario="real walk; entry fields compared with the statement"),
                            "battery": n, "entries": n_entries}))
    return out


def replay_entry_rows(items):
    return [x for x in _entry_results() if "rooted-entry-depth" not in x[0]]


def replay_entry_rows_depth(items):
    return _entry_results()


# ---------------------------------------------------------------------------------------------
# glob walks: yielded set against per-path matching, on a real directory tree
# ---------------------------------------------------------------------------------------------

WALK_TREE = ["b/", "b/p/", "b/p/1/", "b/p/1/2/", "b/p/1/2/x", "b/p/1/y", "b/p/z", "b/q/", "b/q/1", "b/w",
             "c/", "c/1/", "c/1/2", "c/v"]


def _walk_battery():
    """(base, glob) pairs; expected = every entry beneath the walk root whose base-relative path
    (or whole path for a rooted glob) the real is_match accepts."""
    from core import probe
    cases = []
    for glob in ["**", "*", "*/*", "p/**", "p/*/*", "p/*/*/x", "p/1/**", "**/x", "p/**/y", "q/*", "{p,q}/*",
                 "p/<*/:1,2>*", "w", "p", ""]:
        cases.append(("b", glob, "plain"))
    for glob in ["../c/**", "../c/*", "../c/*/*", "../b/p/*"]:
        cases.append(("b", glob, "parent"))
    for glob in ["./p/*", "./p/**", "./p/1/*", "./q/1", "./*"]:
        cases.append(("b", glob, "dot"))
    for glob in ["{ROOT}/b/**", "{ROOT}/b/*", "{ROOT}/b/*/*", "{ROOT}/b/p/*/*", "{ROOT}/b/p/**/x", "{ROOT}/c/1/*"]:
        cases.append(("c", glob, "rooted"))
    rows = probe([{"op": "walk", "tree": WALK_TREE, "base": b, "glob": g, "stack": []} for b, g, _ in cases])
    bad = []
    for (base, glob, kind), row in zip(cases, rows):
        if not row or not row.get("ok"):
            bad.append({"base": base, "glob": glob, "kind": kind, "error": str(row)[:200]})
            continue
        tmp = row["tmp"]
        # candidate entries: everything in the scratch tree, as paths relative to the scratch root
        all_entries = [""] + [t.rstrip("/") for t in WALK_TREE]
        cands = {}
        for e in all_entries:
            absolute = tmp + ("/" + e if e else "")
            if kind == "rooted":
                cands[e] = absolute
            elif kind == "parent":
                # relative to base through `..`: base/../x
                if e == "" or e == base:
                    cands[e] = ".." if e == "" else "../" + base
                else:
                    cands[e] = "../" + e
            elif kind == "dot":
                # the glob spells the current directory explicitly: ./x
                if e.startswith(base + "/"):
                    cands[e] = "./" + e[len(base) + 1:]
            else:
                if e == base:
                    cands[e] = ""
                elif e.startswith(base + "/"):
                    cands[e] = e[len(base) + 1:]
        g = glob.replace("{ROOT}", tmp)
        ms = probe([{"op": "match", "target": {"glob": g}, "paths": list(cands.values())}])[0]
        if not ms.get("ok"):
            bad.append({"base": base, "glob": glob, "kind": kind, "error": str(ms)[:200]})
            continue
        expected = {e for (e, c), r in zip(cands.items(), ms["results"]) if r["m"]}
        import os.path as _op
        got = [(_op.normpath(i["path"]) if i["path"] else "") for i in row["items"] if not i.get("error")]
        got = ["" if x == "." else x for x in got]
        gotset = set(got)
        # the base itself is yielded *only if* the glob matches the empty path (not: iff)
        if kind == "plain" and base in expected and base not in gotset:
            expected.discard(base)
        if gotset != expected or len(got) != len(gotset):
            bad.append({"base": base, "glob": glob, "kind": kind, "missing": sorted(expected - gotset),
                        "unexpected": sorted(gotset - expected), "duplicates": len(got) - len(gotset)})
    return len(cases), bad


def _walk_results(kinds):
    n, bad = _walk_battery()
    out = []
    for b in bad:
        if b["kind"] not in kinds:
            continue
        role = {"plain": "walk-mismatch", "parent": "parent-prefix-walk-mismatch",
                "rooted": "rooted-walk-mismatch", "dot": "dot-prefix-walk-mismatch"}[b["kind"]]
        out.append(({role}, {"short": dict(b, scenario="real walk of the glob vs. real is_match on every entry of the tree"),
                             "battery": n}))
    return out


def replay_closure(items):
    return _walk_results({"plain"})


def replay_closure_rooted(items):
    return _walk_results({"rooted"}) or _walk_results({"plain"})


def replay_closure_parent(items):
    return _walk_results({"parent"}) or _walk_results({"plain"})


# ---------------------------------------------------------------------------------------------
# escaping, negations, error items: small public-API batteries
# ---------------------------------------------------------------------------------------------

def replay_escape(items):
    import itertools
    from core import probe
    meta = "?*$:<>()[]{},"
    alphabet = list(meta) + ["/", "-", "!", "^", "&", "~", "#", "|", "+", "a", ".", " ", "\u91d1", "\U0001F600", "\u00e9"]
    strs = ["".join(t) for k in (1, 2) for t in itertools.product(alphabet, repeat=k) if "//" not in "".join(t)]
    rows = probe([{"op": "esc", "raw": x} for x in strs])
    out = []
    for x, row in zip(strs, rows):
        expected = "".join(("\\" + c) if c in meta else c for c in x)
        if not row or row.get("escaped") != expected or row.get("borrowed") != (expected == x):
            out.append(({"escape-output-wrong"}, {"short": {"text": x, "escaped": row and row.get("escaped"),
                                                            "borrowed": row and row.get("borrowed"), "expected": expected}}))
            if len(out) > 10:
                break
    mrow = probe([{"op": "meta", "chars": "".join(alphabet)}])[0]
    for c, m, cm in zip(alphabet, mrow["meta"], mrow["contextual"]):
        if m != (c in meta) or cm != (c == "-"):
            out.append(({"meta-predicate-wrong"}, {"short": {"char": c, "is_meta": m, "is_contextual": cm}}))
    return out


# two names are not valid UTF-8 (%FC): they are matched through their lossy conversion (U+FFFD)
NEG_TREE = ["b/", "b/a/", "b/a/x", "b/a/y/", "b/a/y/z", "b/c", "b/d/", "b/d/a/", "b/d/a/w", "b/d/e", "b/f.rs",
            "b/men%FC.bak", "b/caf%FC/", "b/caf%FC/inner"]
NEGATIONS = [["a/**"], ["**/a/**"], ["a"], ["**/a"], ["*.rs"], ["**/*.rs", "d/**"], ["a/**", "c"], ["d/*"], [""],
             ["**/{x,w}"], ["a/y/**", "**/e"], ["**/*.bak"], ["caf?/**"], ["men?.bak", "a"]]


def replay_negation_walks(items):
    from core import probe
    rels = [""] + [t.rstrip("/")[2:].replace("%FC", "\ufffd") for t in NEG_TREE if t != "b/"]
    cmds = [{"op": "walk", "tree": NEG_TREE, "base": "b", "glob": None,
             "stack": [{"not": {"pats": pats, "mode": "any_text"}}]} for pats in NEGATIONS]
    rows = probe(cmds)
    ms = probe([{"op": "match", "target": {"any": pats, "mode": "text"}, "paths": rels} for pats in NEGATIONS])
    out = []
    for pats, row, m in zip(NEGATIONS, rows, ms):
        if not row.get("ok") or not m.get("ok"):
            out.append(({"negation-walk-mismatch"}, {"short": {"negation": pats, "error": str(row)[:150]}}))
            continue
        expected = {r for r, x in zip(rels, m["results"]) if not x["m"]}
        got = {i["relative"] for i in row["items"] if not i.get("error")}
        if got != expected:
            out.append(({"negation-walk-mismatch"},
                        {"short": {"negation": pats, "missing": sorted(expected - got),
                                   "unexpected": sorted(got - expected),
                                   "scenario": "real walk with not(any(patterns)) vs. filtering every entry with any.is_match"}}))
    return out


ERR_DIRS = ["a0", "zz1", "m2", "b3", "y4", "k5", "c6", "x7"]
ERR_TREE = ["b/"] + ["b/%s/" % d for d in ERR_DIRS] + ["b/%s/%s" % (d, n) for d, n in zip(ERR_DIRS, "fzagqbwm")] + ["b/c"]
# one broken link per directory, with names sorting before / after the file's name, so that in
# some directory the link is read first whatever the directory order is
ERR_LINKS = ([["b/%s/%s" % (d, n), "{ROOT}/b"] for d, n in zip(ERR_DIRS[:4], ["loop", "a-loop", "zloop", "0loop"])] +
             [["b/%s/%s" % (d, n), "{ROOT}/nowhere"] for d, n in zip(ERR_DIRS[4:], ["dangling", "a-dangling", "zd", "0d"])])


def replay_walk_errors(items):
    """Link cycle and dangling link under ReadTarget: one error item each, naming the path, in
    place; the remaining entries unaffected; errors pass through combinator stacks unchanged."""
    from core import probe
    stacks = [[], [{"filter": {"tree": [], "file": []}}], [{"not": {"pats": ["zzz"], "mode": "any_text"}}],
              [{"filter": {"tree": [], "file": ["c"]}}, {"not": {"pats": ["nothing/e"], "mode": "any_text"}}],
              [{"not": {"pats": ["**/{*loop,*dangling,zd,0d}"], "mode": "any_text"}}],
              [{"not": {"pats": ["**/{*loop,*dangling,zd,0d}/**"], "mode": "any_text"}}, {"filter": {"tree": [], "file": []}}]]
    cmds = [{"op": "walk", "tree": ERR_TREE, "links": ERR_LINKS, "base": "b", "glob": None, "stack": st,
             "behavior": {"link": "target"}} for st in stacks]
    rows = probe(cmds)
    out = []
    base_errors = None
    for st, row in zip(stacks, rows):
        if not row.get("ok"):
            out.append(({"walk-error-mismatch"}, {"short": {"stack": st, "error": str(row)[:150]}}))
            continue
        errors = sorted((i.get("path") or "", i["depth"]) for i in row["items"] if i.get("error"))
        entries = {i["relative"] for i in row["items"] if not i.get("error")}
        want_errors = sorted((l[0], 2) for l in ERR_LINKS)
        must = {""} | set(ERR_DIRS) | {"%s/%s" % (d, n) for d, n in zip(ERR_DIRS, "fzagqbwm")}
        dropped = {"c"} if any("filter" in l and "c" in l["filter"]["file"] for l in st) else set()
        must = (must | {"c"}) - dropped
        if errors != want_errors or not must <= entries:
            out.append(({"walk-error-mismatch"},
                        {"short": {"stack": st, "errors": errors[:4], "expected_errors": want_errors[:4],
                                   "missing_entries": sorted(must - entries),
                                   "scenario": "real walk (ReadTarget) over re-entrant and dangling links in 8 directories"}}))
    return out


LINK_DIRS = ["t0", "zz1", "m2", "b3"]


def replay_link_discard(items):
    """A symbolic link to a directory read as a file (default link behaviour) and discarded as a
    tree must not cause any sibling to be skipped."""
    from core import probe
    tree = ["b/", "b/target/", "b/target/inner"]
    links = []
    siblings = []
    for d, lname in zip(LINK_DIRS, ["lnk", "a-lnk", "zlnk", "0lnk"]):
        tree += ["b/%s/" % d, "b/%s/f" % d, "b/%s/sub/" % d, "b/%s/sub/g" % d]
        links.append(["b/%s/%s" % (d, lname), "{ROOT}/b/target"])
        siblings += ["%s/f" % d, "%s/sub" % d, "%s/sub/g" % d]
    link_rels = [l[0][2:] for l in links]
    out = []
    for stack in ([{"filter": {"tree": link_rels, "file": []}}],
                  [{"not": {"pats": ["*/*lnk/**"], "mode": "any_text"}}]):
        row = probe([{"op": "walk", "tree": tree, "links": links, "base": "b", "glob": None, "stack": stack}])[0]
        if not row.get("ok"):
            out.append(({"link-discard-mismatch"}, {"short": {"error": str(row)[:200]}}))
            continue
        got = {i["relative"] for i in row["items"] if not i.get("error")}
        missing = sorted(set(siblings) - got)
        if missing:
            out.append(({"link-discard-mismatch"},
                        {"short": {"stack": stack, "missing_siblings": missing,
                                   "scenario": "real walk (ReadFile): links to a directory discarded as trees"}}))
    return out


# ---------------------------------------------------------------------------------------------
# the glob walker's own pruning: directories whose component cannot match are never read
# ---------------------------------------------------------------------------------------------

OBS_TREE = ["b/", "b/pp/", "b/pp/1/", "b/pp/1/2/", "b/pp/1/2/x", "b/pp/y", "b/q/", "b/q/1/", "b/q/1/z", "b/q/dd/",
            "b/q/dd/e", "b/q/dd/f/", "b/q/dd/f/g", "b/q/v", "b/w"]


def _observe_battery():
    """A downstream filter_entry logs what it observes; nothing beneath a directory that fails its
    component program (`pp` and `dd` fail `?`) may be observed (rooted, unrooted and `..` globs)."""
    from core import probe
    cases = [("b", "?/*/*", "plain"), ("b", "?/**", "plain"), ("b", "q/?/*", "plain"),
             ("c", "{ROOT}/b/?/*/*", "rooted"), ("c", "{ROOT}/b/?/**", "rooted"),
             ("c", "{ROOT}/b/q/?/*", "rooted"), ("b", "../b/?/*", "parent")]
    rows = probe([{"op": "walk", "tree": OBS_TREE + ["c/"], "base": b, "glob": g,
                   "stack": [{"filter": {"tree": [], "file": []}}]} for b, g, _ in cases])
    bad = []
    for (base, glob, kind), row in zip(cases, rows):
        if not row or not row.get("ok"):
            bad.append({"base": base, "glob": glob, "kind": kind, "error": str(row)[:200]})
            continue
        observed = row["observed"][0]
        forbidden = "/dd/" if "q/?" in glob else "/pp/"
        leaked = sorted(o for o in observed if forbidden in ("/" + o))
        if leaked:
            bad.append({"base": base, "glob": glob, "kind": kind, "observed_beneath_discarded_directory": leaked})
    return len(cases), bad


def _observe_results(kinds):
    n, bad = _observe_battery()
    out = []
    for b in bad:
        if b["kind"] not in kinds:
            continue
        out.append(({"pruned-directory-was-read"},
                    {"short": dict(b, scenario="real glob walk with a logging filter_entry downstream"), "battery": n}))
    return out


def _negation_observe_results():
    """A downstream filter_entry logs what it observes behind a negation: nothing beneath a directory
    that matches an exhaustive alternative of the negation may be observed -- also when the directory
    matches a non-exhaustive alternative as well, whatever the order of the alternatives."""
    from core import probe
    cases = [(["q/dd/**", "**/dd"], "q/dd/"), (["**/dd", "q/dd/**"], "q/dd/"), (["q/dd/**"], "q/dd/"),
             (["pp/**", "?p"], "pp/"), (["*p", "w", "pp/**"], "pp/"), (["**/dd/**", "**/d?", "**/f"], "q/dd/")]
    rows = probe([{"op": "walk", "tree": OBS_TREE, "base": "b", "glob": None,
                   "stack": [{"not": {"pats": pats, "mode": "any_text"}}, {"filter": {"tree": [], "file": []}}]}
                  for pats, _ in cases])
    out = []
    for (pats, forbidden), row in zip(cases, rows):
        if not row or not row.get("ok"):
            out.append(({"negation-tree-was-read"}, {"short": {"negation": pats, "error": str(row)[:200]}}))
            continue
        leaked = sorted(o for o in row["observed"][0] if o.startswith(forbidden))
        if leaked:
            out.append(({"negation-tree-was-read"},
                        {"short": {"negation": pats, "observed_beneath_discarded_directory": leaked,
                                   "scenario": "real walk with not(any(patterns)) and a logging filter_entry downstream"}}))
    return out


_old_negation_walks = replay_negation_walks


def replay_negation_walks(items):
    return _old_negation_walks(items) + _negation_observe_results()


_old_closure, _old_rooted, _old_parent = replay_closure, replay_closure_rooted, replay_closure_parent


def replay_closure(items):
    return _old_closure(items) + _observe_results({"plain"})


def replay_closure_rooted(items):
    return _old_rooted(items) + _observe_results({"rooted", "plain"})


def replay_closure_parent(items):
    return _old_parent(items) + _observe_results({"parent", "plain"})


def replay_closure_dot(items):
    return _walk_results({"dot"}) or _walk_results({"plain"})


# ---------------------------------------------------------------------------------------------
# spans (C17): expressions whose build errors / captures have spans with a known, rule-derived value
# ---------------------------------------------------------------------------------------------

SPAN_ERRORS = [
    # (expression, expected spans of locations()[..] or None when only sliceability is demanded)
    ("a//b", [(1, 2)]), ("金//é", [(3, 2)]), ("a/**/**/b", None), ("金\\", None), ("(?i)金\\", None),
    ("é\\", None), ("a{", None), ("金{金", None), ("金/{/b,c}", [(4, 6)]), ("<*>", [(0, 3)]),
    ("金<*>", [(3, 3)]), ("a{**}b", [(1, 4)]), ("<金:2,1>", [(0, 9)]), ("\U0001F600\\", None), ("\\", None),
    ("a/{b,/金}", None), ("é/<a/:2>/é", None), ("{金,**}", [(0, 8)]),
]
SPAN_CAPTURES = [
    ("**/{a*,b*}/$", [(0, 3), (3, 7), (11, 1)], None),
    ("/**/a*", [(0, 4), (5, 1)], ("**/a*", [(0, 3), (4, 1)])),
    ("金/**/(?i)*.é", [(3, 4), (7, 5)], ("**/(?i)*.é", [(0, 3), (3, 5)])),
    ("é/金/*[a]", [(7, 1), (8, 3)], ("*[a]", [(0, 1), (1, 3)])),
    ("/**", [(0, 3)], ("**", [(0, 2)])),
]


def replay_spans(items):
    from core import probe
    out = []
    rows = probe([{"op": "spans", "e": e} for e, _ in SPAN_ERRORS])
    for (e, want), row in zip(SPAN_ERRORS, rows):
        if not row or row.get("ok") or row.get("panic"):
            continue
        got = [(l["start"], l["len"]) for l in row["locations"]]
        unsliceable = [l for l in row["locations"] if l["slice"] is None]
        if unsliceable:
            l = unsliceable[0]
            out.append(({"error-span-not-sliceable"},
                        {"short": {"expression": e, "span": [l["start"], l["len"]], "label": l["label"],
                                   "scenario": "Glob::new(e).unwrap_err().locations(); e.get(start..)?.get(..len) is None (the documented slicing would panic)"}}))
        elif want is not None and got != want:
            out.append(({"error-span-wrong"}, {"short": {"expression": e, "spans": got, "expected": want}}))
    rows = probe([{"op": "spans", "e": e} for e, _, _ in SPAN_CAPTURES])
    for (e, want, post), row in zip(SPAN_CAPTURES, rows):
        if not row or not row.get("ok"):
            continue
        got = [(c["start"], c["len"]) for c in row["caps"]]
        if got != want:
            out.append(({"capture-span-differs-from-subexpression"},
                        {"short": {"expression": e, "reported": got, "sub_expressions": want}}))
        if post is not None:
            p = row.get("post") or {}
            gotp = [(c["start"], c["len"]) for c in p.get("caps", [])]
            if p.get("text") != post[0] or gotp != post[1]:
                out.append(({"postfix-capture-spans-wrong"},
                            {"short": {"expression": e, "postfix": p.get("text"), "reported": gotp,
                                       "expected": list(post)}}))
    return out
