"""Public-API reproduction of engine-B counterexamples on a real directory tree (through waxprobe's
`walk` op, which runs the real walkdir-backed iterators). Used only AFTER the solver produced a
counterexample: a battery of concrete combinator stacks is run and compared with a small model of
the property; what reproduces is reported, nothing is decided here."""
import itertools

from core import probe

# base/p contains three directories that will be discarded (a, g, m), files and other directories
TREE = ["b/", "b/p/", "b/p/a/", "b/p/a/x", "b/p/a/y/", "b/p/a/y/z", "b/p/g/", "b/p/g/x", "b/p/m/",
        "b/p/m/x", "b/p/c", "b/p/d/", "b/p/d/e", "b/p/f", "b/q/", "b/q/r", "b/s"]
TARGET_DIRS = ["p/a", "p/g", "p/m"]
TARGET_FILE = ["p/c"]


def entries():
    out = [""]
    for t in TREE:
        rel = t.rstrip("/")
        if rel == "b":
            continue
        out.append(rel[2:])
    return out


def is_dir(rel):
    return rel == "" or ("b/" + rel + "/") in TREE


LAYERS = {
    "F-keep": {"filter": {"tree": [], "file": []}},
    "F-file-dirs": {"filter": {"tree": [], "file": TARGET_DIRS}},
    "F-tree-dirs": {"filter": {"tree": TARGET_DIRS, "file": []}},
    "F-tree-file": {"filter": {"tree": TARGET_FILE, "file": []}},
    "F-file-file": {"filter": {"tree": [], "file": TARGET_FILE}},
    "N-tree-dirs": {"not": {"pats": ["p/{a,g,m}/**"], "mode": "any_text"}},
    "N-file-dirs": {"not": {"pats": ["p/{a,g,m}"], "mode": "any_text"}},
}


def layer_verdict(name, rel):
    """0 keep, 1 file, 2 tree"""
    if name == "F-keep":
        return 0
    if name == "F-file-dirs":
        return 1 if rel in TARGET_DIRS else 0
    if name == "F-tree-dirs":
        return 2 if rel in TARGET_DIRS else 0
    if name == "F-tree-file":
        return 2 if rel in TARGET_FILE else 0
    if name == "F-file-file":
        return 1 if rel in TARGET_FILE else 0
    if name == "N-tree-dirs":
        return 2 if any(rel == t or rel.startswith(t + "/") for t in TARGET_DIRS) else 0
    if name == "N-file-dirs":
        return 1 if rel in TARGET_DIRS else 0
    raise ValueError(name)


def model(stack):
    """Expected (yielded set, observed list per filter layer) by the statement of C13/C16."""
    discarded_trees = []
    yielded = set()
    observed = [[] for n in stack if n.startswith("F-")]
    for rel in entries():
        if any(rel.startswith(t + "/") for t in discarded_trees):
            continue
        verdicts = [layer_verdict(n, rel) for n in stack]
        k = 0
        for n in stack:
            if n.startswith("F-"):
                observed[k].append(rel)
                k += 1
        final = max(verdicts) if verdicts else 0
        if final == 2 and is_dir(rel):
            discarded_trees.append(rel)
        if final == 0:
            yielded.add(rel)
    return yielded, [sorted(o) for o in observed]


def stacks(max_layers=3, names=None):
    names = names or list(LAYERS)
    for n in range(1, max_layers + 1):
        for combo in itertools.product(names, repeat=n):
            yield list(combo)


def run_battery(max_layers=3, names=None, glob=None):
    """Runs every stack; returns list of mismatches (dicts)."""
    sts = list(stacks(max_layers, names))
    cmds = [{"op": "walk", "tree": TREE, "base": "b", "glob": glob,
             "stack": [LAYERS[n] for n in st]} for st in sts]
    rows = probe(cmds)
    bad = []
    for st, row in zip(sts, rows):
        if not row or not row.get("ok"):
            bad.append({"stack": st, "error": row})
            continue
        exp_y, exp_o = model(st)
        got_y = set(i["relative"] for i in row["items"] if not i.get("error"))
        got_o = [sorted(o) for o in row["observed"]]
        errors = [i for i in row["items"] if i.get("error")]
        if got_y != exp_y or got_o != exp_o or errors:
            bad.append({"stack": st,
                        "missing": sorted(exp_y - got_y), "unexpected": sorted(got_y - exp_y),
                        "observed_diff": [
                            {"layer": k, "not_observed": sorted(set(e) - set(g)),
                             "observed_twice_or_extra": sorted([x for x in g if g.count(x) > e.count(x)])}
                            for k, (e, g) in enumerate(zip(exp_o, got_o)) if e != g],
                        "errors": errors[:3]})
    return len(sts), bad
