"""Runs the engine-B part of a property and (optionally) merges it into an existing Report."""
import json
import os
import sys
import time

import kani
import replays
import table
from core import Report, Inconclusive, tier, build_probe, main_wrapper


def run_kani_part(pid, rep):
    """Runs all harnesses of `pid` for the current tier. Adds candidates / undecided to `rep`.
    Returns (coverage dict, inconclusive reason or None)."""
    specs = table.for_property(pid, tier())
    t0 = time.time()
    results, cmds = kani.run_harnesses(pid, specs)
    inconclusive = []
    timed_out = {}
    failed = {}
    passed = 0
    nonvacuous = 0
    samples = []
    cbmc_s = 0.0
    for name, r in sorted(results.items()):
        verdict, why = kani.classify(r)
        spec = r["spec"]
        cbmc_s += r["time_s"] or 0.0
        entry = {"harness": name, "verdict": verdict, "functions": spec["functions"],
                 "bounds": spec["bounds"], "stubs": spec["stubs"],
                 "covers": list(r["covers"]) if r["covers"] else None, "cbmc_s": r["time_s"]}
        if verdict == "pass":
            passed += 1
            if r["covers"] and r["covers"][1] > 0:
                nonvacuous += 1
        elif verdict == "fail":
            entry["failed_checks"] = r["failed"][:6]
            failed.setdefault(spec["replay"], []).append((name, r))
        else:
            entry["why"] = why
            inconclusive.append("%s: %s" % (name, why))
            # a harness that diverges (per-harness timeout) or exhausts the memory limit under the
            # current tree: the public-API batteries of its family are run as a fallback
            if r["status"] == "TIMEOUT" or (r.get("error") and ("CBMC failed" in r["error"] or "memory" in r["error"].lower())):
                timed_out.setdefault(spec["replay"], []).append((name, r))
        samples.append(entry)
    replayed = 0
    if failed:
        build_probe()
    for kind, items in failed.items():
        # a harness may name several batteries ("a+b"): all are run
        reproduced = []
        for part in kind.split("+"):
            reproduced += getattr(replays, "replay_" + part)(items)
        replayed += 1
        if not reproduced:
            # no battery scenario reproduces: native concrete playback for stub-free harnesses
            stubfree = [n for n, r in items if not r["spec"].get("stubs")]
            if stubfree:
                for harness, failed_natively, src in kani.native_playback(pid + "-" + kind, stubfree):
                    if failed_natively:
                        reproduced.append(({"kani-native-playback", harness.split("::")[-1]},
                                           {"short": {"harness": harness,
                                                      "scenario": "Kani concrete playback: the unit test below fails natively (dev profile) against the real code",
                                                      "test": src[-900:]}}))
        if not reproduced:
            inconclusive.append(
                "Kani counterexample in %s did not reproduce through the public API / natively "
                "(pre-state not reachable, or no reproduction scenario): %s"
                % ([n for n, _ in items], [r["failed"][:2] for _, r in items][:2]))
        for roles, record in reproduced:
            record = dict(record, harnesses=[n for n, _ in items],
                          failed_checks=[r["failed"][:3] for _, r in items][:4])
            rep.candidate(roles, record)
    # A harness that is decided in seconds on the unchanged tree and diverges under the current tree
    # is not a verdict. As a fallback the public-API batteries of its family are run; a mismatch
    # they show on the real build is reported (flagged as found by the battery, not by the solver).
    for kind, items in timed_out.items():
        if kind in failed:
            continue
        build_probe()
        found = []
        for part in kind.split("+"):
            found += getattr(replays, "replay_" + part)(items)
        for roles, record in found:
            record = dict(record, harnesses_timed_out=[n for n, _ in items],
                          note="found by the public-API replay battery after the solver run diverged (CBMC timeout or memory limit); not a solver verdict")
            rep.candidate(set(roles) | {"found-by-battery-after-harness-timeout"}, record)
    cov = {
        "obligations": len(specs), "discharged": passed,
        "evaluations": len(specs), "distinct_nontrivial": nonvacuous,
        "rule": "one Kani proof harness = one obligation, decided by CBMC (cadical) for all values of its kani::any() inputs within the stated bounds; distinct_nontrivial counts harnesses that passed with every kani::cover! reachability witness satisfied",
        "checker_cmd": cmds[0] if cmds else "",
        "harnesses": samples, "cbmc_s": round(cbmc_s, 1), "kani_wall_s": round(time.time() - t0, 1),
        "traces_validated_against_impl": replayed,
        "trusted_base": ["Kani 0.68.0 / CBMC 6.11.0 (cadical)", "the listed environment stubs",
                         "field-for-field mirrors of walkdir::DirEntry / walkdir::Error (size-asserted)"],
    }
    return cov, ("; ".join(inconclusive) if inconclusive else None)


def main(pid, level_note=None):
    def run():
        rep = Report(pid, "model_checking")
        cov, inc = run_kani_part(pid, rep)
        cov["samples"] = cov["harnesses"][:8]
        rep.assumptions += [
            "bounded model checking of the real code compiled by Kani from /repo's working tree; results hold for all values of the symbolic inputs within the bounds listed per harness, nothing beyond",
            "environment stubs (listed per harness) return arbitrary values of their type",
        ]
        if level_note:
            rep.assumptions.append(level_note)
        return rep.finish(cov, inconclusive=inc)
    main_wrapper(run)
