"""Engine B driver: runs Kani (CBMC) proof harnesses that are compiled inside /repo's crate through
the include! mount points, parses the verdicts, replays failures against the real build through
the public API (waxprobe) or natively (concrete playback), and writes the evidence file."""
import json
import os
import re
import resource
import shutil
import subprocess
import sys
import time
from concurrent.futures import ThreadPoolExecutor

from core import (VERIF, REPO, BUILD, GUARD, Report, Inconclusive, tier, seed, build_probe)

KANI_TIMEOUT_S = int(os.environ.get("VERIF_KANI_TIMEOUT", "0")) or None
MEM_LIMIT = 10 * 1024 ** 3
HARNESS_TIMEOUT_S = int(os.environ.get("VERIF_HARNESS_TIMEOUT", "900"))


def _limits():
    resource.setrlimit(resource.RLIMIT_AS, (MEM_LIMIT, MEM_LIMIT))


def kani_env(verif_dir=VERIF):
    env = dict(os.environ)
    env["CARGO_NET_OFFLINE"] = "true"
    env["RUSTFLAGS"] = "--cfg " + GUARD
    env["WAX_VERIF_DIR"] = verif_dir
    return env


_HARNESS = re.compile(r"^Checking harness (\S+?)\.\.\.$")


def parse_log(text):
    """-> dict harness -> {status, failed:[{desc,file,line}], covers:(sat,total), time_s, stubs}"""
    out = {}
    cur = None
    lines = text.split("\n")
    for i, line in enumerate(lines):
        m = _HARNESS.match(line.strip())
        if m:
            cur = m.group(1)
            out[cur] = {"status": "UNKNOWN", "failed": [], "covers": None, "time_s": None,
                        "unwinding_failed": False, "error": None}
            continue
        if cur is None:
            continue
        h = out[cur]
        s = line.strip()
        if s.startswith("VERIFICATION:-"):
            h["status"] = s.split(":-")[1].strip().split(" ")[0]
        elif s.startswith("Verification Time:"):
            try:
                h["time_s"] = float(s.split(":")[1].strip().rstrip("s"))
            except ValueError:
                pass
        elif s.startswith("Failed Checks:"):
            desc = s[len("Failed Checks:"):].strip()
            loc = lines[i + 1].strip() if i + 1 < len(lines) else ""
            m2 = re.match(r'File: "([^"]+)", line (\d+)', loc)
            h["failed"].append({"desc": desc, "file": m2.group(1) if m2 else None,
                                "line": int(m2.group(2)) if m2 else None})
            if "unwinding assertion" in desc:
                h["unwinding_failed"] = True
        elif "cover properties satisfied" in s:
            m2 = re.search(r"(\d+) of (\d+) cover properties satisfied", s)
            if m2:
                h["covers"] = (int(m2.group(1)), int(m2.group(2)))
        elif "CBMC timed out" in s:
            h["status"] = "TIMEOUT"
        elif "Status: ERROR" in s or "CBMC failed" in s or "out of memory" in s.lower():
            h["error"] = s
    stubs = re.findall(r"- Stub: (.+)", text)
    return out, stubs


def run_chunk(tag, names, stubbing, timeout_s, extra_args=(), verif_dir=VERIF):
    target = os.path.join(BUILD, "kani-" + tag)
    cmd = ["cargo", "kani", "--manifest-path", os.path.join(REPO, "Cargo.toml"),
           "--target-dir", target, "--exact"]
    if stubbing:
        cmd += ["-Z", "stubbing"]
    # one slow harness must not take the rest of its chunk with it
    cmd += ["-Z", "unstable-options", "--harness-timeout", "%ds" % HARNESS_TIMEOUT_S]
    cmd += list(extra_args)
    for n in names:
        cmd += ["--harness", n]
    t0 = time.time()
    try:
        p = subprocess.run(cmd, env=kani_env(verif_dir), capture_output=True, text=True,
                           timeout=timeout_s, preexec_fn=_limits)
        text = p.stdout + "\n" + p.stderr
        timed_out = False
    except subprocess.TimeoutExpired as e:
        text = (e.stdout or b"").decode("utf-8", "replace") + "\n" + (e.stderr or b"").decode("utf-8", "replace")
        timed_out = True
        subprocess.run(["pkill", "-f", "kani-" + tag], capture_output=True)
    os.makedirs(os.path.join(BUILD, "logs"), exist_ok=True)
    with open(os.path.join(BUILD, "logs", "kani-%s.log" % tag), "w") as f:
        f.write(text)
    res, stubs = parse_log(text)
    compile_error = ("error: could not compile" in text or "error[E" in text) and not res
    return {"results": res, "stubs": stubs, "wall_s": time.time() - t0, "timed_out": timed_out,
            "compile_error": compile_error, "log_tail": text[-3000:] if compile_error else "",
            "cmd": " ".join(cmd)}


def run_harnesses(pid, specs, jobs=None):
    """specs: list of harness dicts (table.py). Returns dict name -> result (with spec)."""
    if not specs:
        return {}, []
    n_chunks = jobs or min(6 if len(specs) > 40 else 4, max(1, len(specs) // 3))
    # heavy harnesses get a chunk of their own
    heavy = [s for s in specs if s.get("heavy")]
    light = [s for s in specs if not s.get("heavy")]
    n_heavy = min(6, len(heavy))
    chunks = [heavy[i::n_heavy] for i in range(n_heavy)] + \
             [light[i::n_chunks] for i in range(n_chunks) if light[i::n_chunks]]
    timeout_s = KANI_TIMEOUT_S or (1500 if tier() == "quick" else 5400)

    def go(item):
        k, chunk = item
        stubbing = any(s.get("stubs") for s in chunk)
        # the per-harness timeout bounds every harness; the chunk gets room for all of them
        chunk_timeout = max(timeout_s, HARNESS_TIMEOUT_S * len(chunk) + 600)
        return run_chunk("%s-%d" % (pid, k), [s["name"] for s in chunk], stubbing, chunk_timeout)

    with ThreadPoolExecutor(max(1, len(chunks))) as ex:
        outs = list(ex.map(go, enumerate(chunks)))
    results = {}
    cmds = []
    for chunk, out in zip(chunks, outs):
        cmds.append(out["cmd"])
        if out["compile_error"]:
            sys.stderr.write(out["log_tail"])
            raise Inconclusive("Kani harnesses do not compile against the working tree "
                               "(a private item a harness names changed?)")
        declared = set()
        for s in chunk:
            declared.update(s.get("stubs", []))
        for s in chunk:
            r = out["results"].get(s["name"])
            if r is None:
                r = {"status": "TIMEOUT" if out["timed_out"] else "MISSING", "failed": [],
                     "covers": None, "time_s": None, "unwinding_failed": False, "error": None}
            r = dict(r, spec=s)
            results[s["name"]] = r
        # every declared stub must have been applied
        applied = " ".join(out["stubs"])
        for st in declared:
            short = st.split("::")[-1]
            if short not in applied:
                raise Inconclusive("declared stub %s was not applied by Kani (log: %s)" % (st, out["stubs"][:6]))
    return results, cmds


def classify(r):
    """-> 'pass' | 'fail' | 'inconclusive' (+reason)"""
    if r["status"] == "SUCCESSFUL":
        if r["covers"] and r["covers"][0] != r["covers"][1]:
            return "inconclusive", "vacuous: %d of %d cover properties satisfied" % r["covers"]
        return "pass", ""
    if r["status"] == "FAILED":
        if r["error"]:
            return "inconclusive", r["error"]
        if r["unwinding_failed"] and all("unwinding" in f["desc"] for f in r["failed"]):
            return "inconclusive", "unwinding bound too small"
        if not r["failed"]:
            return "inconclusive", "FAILED without failed checks (solver/resource error?)"
        return "fail", ""
    return "inconclusive", r["status"]


# ---------------------------------------------------------------------------------------------
# native concrete playback (stub-free harnesses only): Kani prints a unit test with the concrete
# values of the counterexample; the test is compiled into a scratch copy of the harness files and
# run natively against the real code.
# ---------------------------------------------------------------------------------------------

MODULE_FILES = {
    "filter::verif_kani": "filter.rs",
    "walk::glob::verif_kani": "walk_glob.rs",
    "walk::verif_kani": "walk_mod.rs",
    "walk::behavior::verif_kani": "walk_behavior.rs",
    "token::variance::verif_kani": "variance.rs",
    "token::parse::verif_kani": "token_parse.rs",
    "token::verif_kani": "token_mod.rs",
    "diagnostics::verif_kani": "diagnostics.rs",
    "verif_kani": "lib.rs",
}

_TEST = re.compile(r"```\n(.*?)```", re.S)


def native_playback(tag, names):
    """-> list of (harness, reproduced: bool, test_source)"""
    target = os.path.join(BUILD, "kani-pb-" + tag)
    cmd = ["cargo", "kani", "--manifest-path", os.path.join(REPO, "Cargo.toml"), "--target-dir", target,
           "--exact", "-Z", "concrete-playback", "--concrete-playback=print"]
    for n in names:
        cmd += ["--harness", n]
    try:
        p = subprocess.run(cmd, env=kani_env(), capture_output=True, text=True, timeout=1500,
                           preexec_fn=_limits)
    except subprocess.TimeoutExpired:
        return []
    text = p.stdout
    scratch = os.path.join(BUILD, "playback-" + tag)
    shutil.rmtree(scratch, ignore_errors=True)
    os.makedirs(os.path.join(scratch, "kani"))
    for f in os.listdir(os.path.join(VERIF, "kani")):
        shutil.copy(os.path.join(VERIF, "kani", f), os.path.join(scratch, "kani", f))
    tests = []
    for block in _TEST.findall(text):
        m = re.search(r"Test generated for harness `([^`]+)`", block)
        t = re.search(r"fn (kani_concrete_playback_\w+)\(", block)
        if not m or not t:
            continue
        harness = m.group(1)
        module, fn = harness.rsplit("::", 1)
        inner = ""
        # harnesses in nested modules (rows::, closure::) are referenced from the mounted module
        for mod, fname in sorted(MODULE_FILES.items(), key=lambda kv: -len(kv[0])):
            if module == mod or module.startswith(mod + "::"):
                inner = module[len(mod):].lstrip(":")
                break
        else:
            continue
        src = block
        if inner:
            src = src.replace(", %s);" % fn, ", %s::%s);" % (inner, fn))
        with open(os.path.join(scratch, "kani", fname), "a") as f:
            f.write("\n" + src + "\n")
        tests.append((harness, t.group(1), src))
    if not tests:
        return []
    env = kani_env(scratch)
    env["CARGO_TARGET_DIR"] = os.path.join(BUILD, "playback-target")
    cmd = ["cargo", "kani", "playback", "-Z", "concrete-playback", "--manifest-path",
           os.path.join(REPO, "Cargo.toml"), "--", "kani_concrete_playback"]
    try:
        p = subprocess.run(cmd, env=env, capture_output=True, text=True, timeout=1500)
    except subprocess.TimeoutExpired:
        return []
    out = p.stdout + p.stderr
    with open(os.path.join(BUILD, "logs", "playback-%s.log" % tag), "w") as f:
        f.write(out)
    res = []
    for harness, test, src in tests:
        failed = re.search(r"test \S*%s \.\.\. FAILED" % re.escape(test), out) is not None
        res.append((harness, failed, src))
    shutil.rmtree(scratch, ignore_errors=True)
    return res
