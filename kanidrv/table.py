"""Harness table: which Kani harness serves which property, in which tier, what it encodes."""

STEP_STUB = ["crate::walk::glob::FilterAny::residue", "regex::Regex::is_match"]
WD_STUBS = ["<walkdir::IntoIter as std::iter::Iterator>::next", "walkdir::IntoIter::skip_current_dir"]
STEP_FUNCS = ["walk::FilterEntry::feed", "walk::Not::feed", "filter::Separation::transpose_filtrate",
              "filter::Separation::filter_tree_by_substituent", "filter::Separation::filter_map_tree",
              "filter::Separation::filter_map_node", "filter::Separation::map_filtrate"]
STEP_BOUNDS = ("pre-state: filtrate / file residue / tree residue / error (arbitrary error depth); "
               "every layer verdict arbitrary in {keep, file, tree}; one feed() step")


def _step(name, tier, layers):
    # stacks that contain a negation are also the per-entry code path of C03
    props = ["C13", "C16", "C20"] + (["C03"] if name in ("step_n", "step_nn", "step_fn", "step_nf") else [])
    return {"name": "walk::glob::verif_kani::" + name, "props": props, "tier": tier,
            "functions": STEP_FUNCS, "bounds": STEP_BOUNDS + "; stack (source first): " + layers,
            "stubs": STEP_STUB, "replay": "filter_stack+walk_errors"}


HARNESSES = [
    # --- separation algebra kernels (filter.rs) ---
    {"name": "filter::verif_kani::separation_filter_map_step", "props": ["C13", "C16"], "tier": "quick",
     "functions": ["filter::Separation::filter_map_node", "filter::Separation::filter_map_tree"],
     "bounds": "all 3 pre-states x 3 verdicts x all u8 payloads", "stubs": [], "replay": "filter_stack"},
    {"name": "filter::verif_kani::separation_filter_tree_by_substituent_step", "props": ["C13", "C16"],
     "tier": "quick", "functions": ["filter::Separation::filter_tree_by_substituent"],
     "bounds": "all 3 pre-states x 3 verdicts x all u8 payloads", "stubs": [], "replay": "filter_stack"},
    {"name": "filter::verif_kani::filtrate_filter_step", "props": ["C13"], "tier": "quick",
     "functions": ["filter::Filtrate::filter_node", "filter::Filtrate::filter_tree"],
     "bounds": "both verdicts x all u8 payloads", "stubs": [], "replay": "filter_stack"},
    {"name": "filter::verif_kani::filtrate_yields_exactly_filtrate", "props": ["C16"], "tier": "quick",
     "functions": ["filter::filtrate"], "bounds": "two-item source, first item arbitrary; unwind 4",
     "stubs": [], "replay": "filter_stack"},
    # --- real combinator stacks, one feed() step ---
    _step("step_f", "quick", "FilterEntry"),
    _step("step_n", "quick", "Not"),
    _step("step_ff", "quick", "FilterEntry, FilterEntry"),
    _step("step_fn", "quick", "FilterEntry, Not"),
    _step("step_nf", "quick", "Not, FilterEntry"),
    _step("step_nn", "quick", "Not, Not"),
    _step("step_fnf", "quick", "FilterEntry, Not, FilterEntry"),
    _step("step_nfn", "quick", "Not, FilterEntry, Not"),
    _step("step_fff", "thorough", "FilterEntry x3"),
    _step("step_ffn", "thorough", "FilterEntry, FilterEntry, Not"),
    _step("step_nff", "thorough", "Not, FilterEntry, FilterEntry"),
    _step("step_fnn", "thorough", "FilterEntry, Not, Not"),
    _step("step_nnf", "thorough", "Not, Not, FilterEntry"),
    _step("step_nnn", "thorough", "Not x3"),
    # --- traversal glue ---
    {"name": "walk::verif_kani::walktree_cancel_guard", "props": ["C13", "C20"], "tier": "quick",
     "functions": ["walk::WalkTree::next", "walk::WalkTree::cancel_walk_tree"],
     "bounds": "next item: exhausted / directory / file / link / error; arbitrary previous is_dir; unwind 6",
     "stubs": WD_STUBS, "replay": "filter_stack+walk_errors+link_discard"},
    {"name": "walk::verif_kani::walktree_cancel_history", "props": ["C13", "C20"], "tier": "quick",
     "functions": ["walk::WalkTree::with_pivot_and_behavior", "walk::WalkTree::next", "walk::WalkTree::cancel_walk_tree"],
     "bounds": "a history of two deliveries (directory / file / link each, walkdir depths 1-3 each) from a walk built by the real constructor; a discard after each or only after the second; unwind 6",
     "stubs": WD_STUBS, "replay": "filter_stack+walk_errors+link_discard"},
    {"name": "walk::verif_kani::walk_error_from_walkdir_error", "props": ["C20"], "tier": "quick",
     "functions": ["<WalkError as From<walkdir::Error>>::from", "WalkError::path", "WalkError::depth"],
     "bounds": "Io without path / Io with path / Loop; arbitrary depth (full width); unwind 6",
     "stubs": [], "replay": "walk_errors"},
    {"name": "walk::verif_kani::walktree_configuration", "props": ["C15"], "tier": "quick",
     "functions": ["walk::WalkTree::with_pivot_and_behavior"],
     "bounds": "both link behaviours x every depth behaviour from the constructors x all pivots (full width)",
     "stubs": ["walkdir::WalkDir::follow_links", "walkdir::WalkDir::min_depth", "walkdir::WalkDir::max_depth"],
     "replay": "depth_walks"},
    {"name": "walk::behavior::verif_kani::depth_translation_matches_documented_bounds", "props": ["C15"],
     "tier": "quick", "functions": ["DepthMax::max_at_pivot", "DepthMin::min_at_pivot",
                                    "DepthMinMax::min_max_at_pivot", "DepthMinMax::max",
                                    "DepthMin::from_min_or_unbounded", "DepthMinMax::from_depths_or_max",
                                    "DepthBehavior::bounded"],
     "bounds": "all 64-bit (min, max, pivot, depth) with depth + pivot representable and max >= pivot", "stubs": [],
     "replay": "depth_walks"},
    {"name": "walk::behavior::verif_kani::depth_translation_max_below_pivot", "props": ["C15"],
     "tier": "quick", "functions": ["DepthMax::max_at_pivot", "DepthMinMax::min_max_at_pivot"],
     "bounds": "all 64-bit (min, max, pivot, depth) with max < pivot", "stubs": [],
     "replay": "depth_walks_below"},
    {"name": "walk::behavior::verif_kani::depth_constructors_keep_bounds", "props": ["C15"], "tier": "quick",
     "functions": ["DepthMinMax::from_depths_or_max", "DepthMin::from_min_or_unbounded", "DepthBehavior::bounded"],
     "bounds": "all 64-bit pairs", "stubs": [], "replay": "depth_walks"},
    # --- negation verdict step ---
    {"name": "walk::glob::verif_kani::negation_residue_step", "props": ["C03", "C13"], "tier": "quick",
     "functions": ["walk::glob::FilterAny::residue", "walk::glob::FilterAnyProgram::residue"],
     "bounds": "all 4 program shapes x all regex verdicts; one concrete root-relative path; unwind 6",
     "stubs": ["regex::Regex::is_match"], "replay": "negation_walks"},
    {"name": "walk::glob::verif_kani::negation_residue_non_utf8_step", "props": ["C03"], "tier": "quick",
     "functions": ["walk::glob::FilterAny::residue", "CandidatePath::from(&Path) (lossy conversion)"],
     "bounds": "one concrete root-relative path with an invalid UTF-8 byte; both partitions present; unwind 8",
     "stubs": ["regex::Regex::is_match"], "replay": "negation_walks"},
    # --- escaping kernel ---
    {"name": "verif_kani::meta_character_set", "props": ["C18"], "tier": "quick",
     "functions": ["is_meta_character", "is_contextual_meta_character"], "bounds": "every char",
     "stubs": [], "replay": "escape"},
    {"name": "verif_kani::escape_meta_char", "props": ["C18"], "tier": "quick",
     "functions": ["escape"], "bounds": "every one-character string that is a meta-character; unwind 6",
     "stubs": [], "replay": "escape"},
    {"name": "verif_kani::escape_non_meta_char", "props": ["C18"], "tier": "quick",
     "functions": ["escape"], "bounds": "every one-character string of a non-meta char (all of char); unwind 6",
     "stubs": [], "replay": "escape"},
    {"name": "verif_kani::escape_two_non_meta_chars", "props": ["C18"], "tier": "thorough", "heavy": True,
     "functions": ["escape"], "bounds": "every two-character string of non-meta chars (char x char); unwind 10",
     "stubs": [], "replay": "escape"},
]

HARNESSES += [
    # --- span kernels (C17) ---
    {"name": "token::parse::verif_kani::parse_error_span_is_sliceable", "props": ["C17"], "tier": "quick",
     "functions": ["<token::parse::ErrorEntry as LocatedError>::span"],
     "bounds": "fragment: empty / one arbitrary char (all of char, every UTF-8 width) / that char followed by one more byte; every location; unwind 8",
     "stubs": [], "replay": "spans"},
    {"name": "diagnostics::verif_kani::span_union_is_the_hull", "props": ["C17"], "tier": "quick",
     "functions": ["<Span as SpanExt>::union"],
     "bounds": "all pairs of spans within an expression of any length (full 64-bit width)", "stubs": [],
     "replay": "spans"},
    {"name": "diagnostics::verif_kani::composite_span_reports_its_span", "props": ["C17"], "tier": "quick",
     "functions": ["CompositeSpan::spanned", "CompositeSpan::correlated", "<CompositeSpan as LocatedError>::span",
                   "CorrelatedSpan::split_some"],
     "bounds": "all spans (full width), with and without a left correlated span", "stubs": [], "replay": "spans"},
    {"name": "token::verif_kani::unroot_moves_span_start_by_reported_bytes", "props": ["C17", "C08"], "tier": "quick",
     "functions": ["<Wildcard as Unroot<Span>>::unroot", "Wildcard::unroot"],
     "bounds": "every wildcard kind x every span at least as long as the root separator (full width)", "stubs": [],
     "replay": "spans"},
]

V = "token::variance::verif_kani::"
RANGE_FUNCS = ["<BoundedVariantRange as Conjunction>::conjunction", "NaturalRange::by_bound_with",
               "<NaturalBound as Conjunction>::conjunction", "NaturalRange::from_closed_and_open",
               "BoundedVariantRange::try_from_lower_and_upper"]


def _var(name, props, tier, functions, bounds, replay):
    return {"name": V + name, "props": props, "tier": tier, "functions": functions, "bounds": bounds,
            "stubs": [], "replay": replay}


HARNESSES += [
    _var("total_conjunction_bounded_ranges", ["C05"], "quick", RANGE_FUNCS,
         "all operand shapes (Lower/Upper/Both) x all magnitudes below 2^31", "range_totality"),
    _var("total_conjunction_depth_variance", ["C05"], "quick",
         ["<TokenVariance<Depth> as Conjunction>::conjunction", "BoundedVariantRange::translation",
          "BoundedVariantRange::opened_upper_bound", "Depth::into_lower_bound"] + RANGE_FUNCS,
         "all 3x3 term shapes x all magnitudes below 2^31", "range_totality"),
    _var("total_conjunction_size_variance", ["C05"], "quick",
         ["<TokenVariance<Size> as Conjunction>::conjunction"] + RANGE_FUNCS,
         "all 3x3 term shapes x all magnitudes below 2^31", "range_totality"),
    _var("total_disjunction_depth_variance", ["C05"], "quick",
         ["<TokenVariance<Depth> as Disjunction>::disjunction", "BoundedVariantRange::union", "Depth::bound",
          "NaturalRange::by_lower_and_upper_with"], "all term shapes, full 64-bit width", "range_totality"),
    _var("total_union_and_openings", ["C05"], "quick",
         ["BoundedVariantRange::union", "BoundedVariantRange::opened_lower_bound",
          "BoundedVariantRange::opened_upper_bound", "BoundedVariantRange::lower", "BoundedVariantRange::upper"],
         "all operand shapes, full 64-bit width", "range_totality"),
    _var("total_from_closed_and_open", ["C05"], "quick", ["NaturalRange::from_closed_and_open",
         "NaturalRange::lower", "NaturalRange::upper"], "all (usize, Option<usize>)", "range_totality"),
    _var("total_translation", ["C05"], "quick", ["BoundedVariantRange::translation"],
         "all shapes, magnitudes and vectors below 2^31", "range_totality"),
    _var("full_width_conjunction_lower_bounds", ["C05"], "quick", RANGE_FUNCS,
         "Lower x Lower, full 64-bit width (the checked_add().expect(\"overflow ...\") is reachable)",
         "range_totality"),
    _var("sound_conjunction_bounded_ranges", ["C10"], "quick", RANGE_FUNCS,
         "all shapes, operands and members below 2^62", "range_soundness"),
    _var("sound_conjunction_depth_variance", ["C10"], "quick",
         ["<TokenVariance<Depth> as Conjunction>::conjunction"] + RANGE_FUNCS,
         "all 3x3 term shapes, operands and members below 2^62", "range_soundness"),
    _var("sound_disjunction_depth_variance", ["C10"], "quick",
         ["<TokenVariance<Depth> as Disjunction>::disjunction", "BoundedVariantRange::union", "Depth::bound"],
         "all 3x3 term shapes, operands below 2^62", "range_soundness"),
    _var("sound_opened_upper_bound", ["C10"], "quick", ["BoundedVariantRange::opened_upper_bound"],
         "all shapes, operands below 2^62", "range_soundness"),
]
HARNESSES.append(_var("sound_termination_table_invariant_depth", ["C10"], "quick",
                      ["<Termination as Conjunction>::conjunction", "<SeparatedTerm<T> as Conjunction<SeparatedTerm<U>>>::conjunction",
                       "<SeparatedTerm<TokenVariance<Depth>> as Finalize>::finalize"],
                      "all 12 well-formed pairs of the non-coalescent terminations (Open, First, Last, Closed) x all invariant separator counts below 2^31; coalescent terms (tree wildcards) and variant counts are outside this lemma",
                      "range_soundness"))
for _n, _t in [("exactly_0", "quick"), ("exactly_1", "quick"), ("exactly_3", "quick"), ("unbounded_k0", "quick"),
               ("unbounded_k7", "thorough"), ("lower2_k2", "quick"), ("lower2_k7", "thorough"),
               ("upper3_k0", "quick"), ("upper3_k3", "quick"), ("upper1_k1", "thorough"),
               ("both_1_3_k1", "quick"), ("both_2_5_k4", "quick"), ("both_2_5_k5", "thorough"),
               ("both_1_2_k2", "thorough")]:
    HARNESSES.append(_var("sound_product_" + _n, ["C10", "C05"], _t,
                          ["<TokenVariance<Depth> as Product<NaturalRange>>::product",
                           "<BoundedVariantRange as Product>::product", "<Depth as Product<VariantRange>>::product",
                           "<NaturalBound as Product>::product"],
                          "repetition range and multiplicity from the constant table (%s); body variance symbolic below 2^40" % _n,
                          "range_soundness"))

import json as _json
import os as _os

_ROWS = _json.load(open(_os.path.join(_os.path.dirname(_os.path.abspath(__file__)), "rows.json")))


def row_specs(tier, seed):
    """C14 rows: all in the thorough tier, a seeded sample (about a fifth, every base and prefix
    represented) in the quick tier."""
    import random
    rnd = random.Random(seed)
    ks = sorted({r["k"] for r in _ROWS})
    if tier == "quick":
        keep = set(rnd.sample(ks, 22))
        # always include one rooted and one `..` row and the deepest unrooted prefixed row
        for r in _ROWS:
            if (r["prefix"], r["base"], len(r["tail"])) in (("/p/", "b", 2), ("../", "b", 1), ("p/q/", "./b", 3)):
                keep.add(r["k"])
    else:
        keep = set(ks)
    out = []
    for r in _ROWS:
        if r["k"] not in keep:
            continue
        name = "row_%03d%s" % (r["k"], ("_" + r["part"]) if r["part"] else "")
        out.append({"name": "walk::glob::verif_kani::rows::" + name, "props": ["C14"], "tier": "quick",
                    "functions": ["walk::JoinAndGetDepth::join_and_get_depth", "walk::glob::root_relative_paths",
                                  "walk::SplitAtDepth::split_at_depth", "GlobEntry::root_relative_paths",
                                  "GlobEntry::depth"],
                    "bounds": "concrete row base=%r prefix=%r entry=%r (walkdir depth %d), clause=%s; symbolic file/dir flag; unwind 16"
                              % (r["base"], r["prefix"], r["path"], r["wd_depth"], r["part"] or "paths+depth"),
                    "stubs": [], "replay": "entry_rows_depth" if r["part"] == "depth" else "entry_rows", "row": r})
    return out

_CROWS = _json.load(open(_os.path.join(_os.path.dirname(_os.path.abspath(__file__)), "closure_rows.json")))
CLOSURE_STUBS = ["<walkdir::IntoIter as std::iter::Iterator>::next", "walkdir::IntoIter::skip_current_dir",
                 "regex::Regex::is_match", "regex::Regex::captures", "crate::capture::MatchedText::into_owned"]


def closure_specs(tier):
    out = []
    for r in _CROWS:
        if tier != "thorough" and r["tier"] != "quick":
            continue
        # quick tier: one shallow and one deep entry per family
        if tier != "thorough" and (r["wd_depth"] not in (1, 2) or (r["family"] == "dot_k3" and r["wd_depth"] != 1)):
            continue
        replay = "closure_rooted" if r["rooted"] else ("closure_parent" if r["prefix"].startswith("..") else
                                                       ("closure_dot" if r["prefix"].startswith("./") else "closure"))
        out.append({"name": "walk::glob::verif_kani::closure::step_" + r["name"], "props": ["C02", "C13"], "tier": "quick",
                    "functions": ["GlobWalker::walk_with_behavior (filter_map_tree closure)", "walk::glob::root_relative_paths",
                                  "WalkTree::with_pivot_and_behavior", "WalkTree::next", "WalkTree::cancel_walk_tree",
                                  "FilterMapTree::feed", "Filtrate::filter_tree", "Filtrate::filter_node"],
                    "bounds": "concrete row base=%r prefix=%r entry=%r (walkdir depth %d), %d component programs; symbolic: every regex verdict, file/dir flag; unwind 16"
                              % (r["base"], r["prefix"], r["path"], r["wd_depth"], r["k"]),
                    "stubs": CLOSURE_STUBS, "replay": replay, "heavy": True, "row": r})
    return out


def for_property(pid, tier):
    if pid == "C14":
        from core import seed
        return row_specs(tier, seed())
    out = []
    if pid == "C02":
        out += closure_specs(tier)
    if pid == "C13":
        # the glob walker's own tree discard: the rooted and the plain family
        out += [c for c in closure_specs(tier) if c["row"]["family"] in ("rooted_k3", "plain_k2")]
    for h in HARNESSES:
        if pid in h["props"] and (tier == "thorough" or h["tier"] == "quick"):
            out.append(h)
    return out
