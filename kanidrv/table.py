"""Harness table: which Kani harness serves which property, in which tier, what it encodes."""

STEP_STUB = ["crate::walk::glob::FilterAny::residue"]
WD_STUBS = ["<walkdir::IntoIter as std::iter::Iterator>::next", "walkdir::IntoIter::skip_current_dir"]
STEP_FUNCS = ["walk::FilterEntry::feed", "walk::Not::feed", "filter::Separation::transpose_filtrate",
              "filter::Separation::filter_tree_by_substituent", "filter::Separation::filter_map_tree",
              "filter::Separation::filter_map_node", "filter::Separation::map_filtrate"]
STEP_BOUNDS = ("pre-state: filtrate / file residue / tree residue / error (arbitrary error depth); "
               "every layer verdict arbitrary in {keep, file, tree}; one feed() step")


def _step(name, tier, layers):
    return {"name": "walk::glob::verif_kani::" + name, "props": ["C13", "C16", "C20"], "tier": tier,
            "functions": STEP_FUNCS, "bounds": STEP_BOUNDS + "; stack (source first): " + layers,
            "stubs": STEP_STUB, "replay": "filter_stack"}


HARNESSES = [
    # --- separation algebra kernels (filter.rs) ---
    {"name": "filter::verif_kani::separation_filter_map_step", "props": ["C13", "C16"], "tier": "quick",
     "functions": ["filter::Separation::filter_map_node", "filter::Separation::filter_map_tree"],
     "bounds": "all 3 pre-states x 3 verdicts x all u8 payloads", "stubs": [], "replay": "filter_stack"},
    {"name": "filter::verif_kani::separation_filter_tree_by_substituent_step", "props": ["C13", "C16"],
     "tier": "quick", "functions": ["filter::Separation::filter_tree_by_substituent"],
     "bounds": "all 3 pre-states x 3 verdicts x all u8 payloads", "stubs": [], "replay": "filter_stack"},
    {"name": "filter::verif_kani::filtrate_filter_step", "props": ["C13"], "tier": "quick",
     "functions": ["filter::Filtrate::filter_node", "filter::Filtrate::filter_tree"],
     "bounds": "both verdicts x all u8 payloads", "stubs": [], "replay": "filter_stack"},
    {"name": "filter::verif_kani::filtrate_yields_exactly_filtrate", "props": ["C16"], "tier": "quick",
     "functions": ["filter::filtrate"], "bounds": "two-item source, first item arbitrary; unwind 4",
     "stubs": [], "replay": "filter_stack"},
    # --- real combinator stacks, one feed() step ---
    _step("step_f", "quick", "FilterEntry"),
    _step("step_n", "quick", "Not"),
    _step("step_ff", "quick", "FilterEntry, FilterEntry"),
    _step("step_fn", "quick", "FilterEntry, Not"),
    _step("step_nf", "quick", "Not, FilterEntry"),
    _step("step_nn", "quick", "Not, Not"),
    _step("step_fnf", "quick", "FilterEntry, Not, FilterEntry"),
    _step("step_nfn", "quick", "Not, FilterEntry, Not"),
    _step("step_fff", "thorough", "FilterEntry x3"),
    _step("step_ffn", "thorough", "FilterEntry, FilterEntry, Not"),
    _step("step_nff", "thorough", "Not, FilterEntry, FilterEntry"),
    _step("step_fnn", "thorough", "FilterEntry, Not, Not"),
    _step("step_nnf", "thorough", "Not, Not, FilterEntry"),
    _step("step_nnn", "thorough", "Not x3"),
    # --- traversal glue ---
    {"name": "walk::verif_kani::walktree_cancel_guard", "props": ["C13"], "tier": "quick",
     "functions": ["walk::WalkTree::next", "walk::WalkTree::cancel_walk_tree"],
     "bounds": "next item: exhausted / directory / file / link / error; arbitrary previous is_dir; unwind 6",
     "stubs": WD_STUBS, "replay": "filter_stack"},
    {"name": "walk::verif_kani::walk_error_from_walkdir_error", "props": ["C20"], "tier": "quick",
     "functions": ["<WalkError as From<walkdir::Error>>::from", "WalkError::path", "WalkError::depth"],
     "bounds": "Io without path / Io with path / Loop; arbitrary depth (full width); unwind 6",
     "stubs": [], "replay": "walk_errors"},
    {"name": "walk::verif_kani::walktree_configuration", "props": ["C15"], "tier": "quick",
     "functions": ["walk::WalkTree::with_pivot_and_behavior"],
     "bounds": "both link behaviours x every depth behaviour from the constructors x all pivots (full width)",
     "stubs": ["walkdir::WalkDir::follow_links", "walkdir::WalkDir::min_depth", "walkdir::WalkDir::max_depth"],
     "replay": "depth_walks"},
    {"name": "walk::behavior::verif_kani::depth_translation_matches_documented_bounds", "props": ["C15"],
     "tier": "quick", "functions": ["DepthMax::max_at_pivot", "DepthMin::min_at_pivot",
                                    "DepthMinMax::min_max_at_pivot", "DepthMinMax::max",
                                    "DepthMin::from_min_or_unbounded", "DepthMinMax::from_depths_or_max",
                                    "DepthBehavior::bounded"],
     "bounds": "all 64-bit (min, max, pivot, depth) with depth + pivot representable and max >= pivot", "stubs": [],
     "replay": "depth_walks"},
    {"name": "walk::behavior::verif_kani::depth_translation_max_below_pivot", "props": ["C15"],
     "tier": "quick", "functions": ["DepthMax::max_at_pivot", "DepthMinMax::min_max_at_pivot"],
     "bounds": "all 64-bit (min, max, pivot, depth) with max < pivot", "stubs": [],
     "replay": "depth_walks_below"},
    {"name": "walk::behavior::verif_kani::depth_constructors_keep_bounds", "props": ["C15"], "tier": "quick",
     "functions": ["DepthMinMax::from_depths_or_max", "DepthMin::from_min_or_unbounded", "DepthBehavior::bounded"],
     "bounds": "all 64-bit pairs", "stubs": [], "replay": "depth_walks"},
    # --- negation verdict step ---
    {"name": "walk::glob::verif_kani::negation_residue_step", "props": ["C03"], "tier": "quick",
     "functions": ["walk::glob::FilterAny::residue", "walk::glob::FilterAnyProgram::residue"],
     "bounds": "all 4 program shapes x all regex verdicts; one concrete root-relative path; unwind 6",
     "stubs": ["regex::Regex::is_match"], "replay": "negation_walks"},
    # --- escaping kernel ---
    {"name": "verif_kani::meta_character_set", "props": ["C18"], "tier": "quick",
     "functions": ["is_meta_character", "is_contextual_meta_character"], "bounds": "every char",
     "stubs": [], "replay": "escape"},
    {"name": "verif_kani::escape_meta_char", "props": ["C18"], "tier": "quick",
     "functions": ["escape"], "bounds": "every one-character string that is a meta-character; unwind 6",
     "stubs": [], "replay": "escape"},
    {"name": "verif_kani::escape_non_meta_char", "props": ["C18"], "tier": "quick",
     "functions": ["escape"], "bounds": "every one-character string of a non-meta char (all of char); unwind 6",
     "stubs": [], "replay": "escape"},
    {"name": "verif_kani::escape_two_non_meta_chars", "props": ["C18"], "tier": "thorough", "heavy": True,
     "functions": ["escape"], "bounds": "every two-character string of non-meta chars (char x char); unwind 10",
     "stubs": [], "replay": "escape"},
]


def for_property(pid, tier):
    out = []
    for h in HARNESSES:
        if pid in h["props"] and (tier == "thorough" or h["tier"] == "quick"):
            out.append(h)
    return out
