//! Real file-system replay: builds a directory tree in a scratch directory and runs the real
//! `Glob::walk_with_behavior` / `PathExt::walk_with_behavior` with a stack of real `not` /
//! `filter_entry` combinators, reporting every item yielded and everything each filter observed.
//! Used only to *replay* solver counterexamples against the real build (never to decide).

use serde_json::{json, Value};
use std::cell::RefCell;
use std::path::{Path, PathBuf};
use std::rc::Rc;
use wax::walk::{
    DepthBehavior, Entry, EntryResidue, FileIterator, LinkBehavior, PathExt, WalkBehavior,
};
use wax::Glob;

#[derive(Clone)]
enum Layer {
    Not { pats: Vec<String>, mode: String },
    Filter { tree: Vec<String>, file: Vec<String>, log: Rc<RefCell<Vec<String>>> },
}

/// `%XX` in a tree specification stands for the raw byte XX (lets a scenario name files that
/// are not valid UTF-8).
fn decode_name(spec: &str) -> std::ffi::OsString {
    use std::os::unix::ffi::OsStringExt;
    let b = spec.as_bytes();
    let mut out = Vec::with_capacity(b.len());
    let mut i = 0;
    while i < b.len() {
        if b[i] == b'%' && i + 2 < b.len() + 0 && i + 2 <= b.len() - 1 + 1 {
            if let Ok(v) = u8::from_str_radix(&spec[i + 1..i + 3], 16) {
                out.push(v);
                i += 3;
                continue;
            }
        }
        out.push(b[i]);
        i += 1;
    }
    std::ffi::OsString::from_vec(out)
}

fn rel_to(root: &Path, p: &Path) -> String {
    match p.strip_prefix(root) {
        Ok(r) => r.to_string_lossy().into_owned(),
        Err(_) => p.to_string_lossy().into_owned(),
    }
}

fn collect<I>(it: I, tmp: &Path, glob_entries: bool) -> Vec<Value>
where
    I: FileIterator,
{
    let _ = glob_entries;
    let mut out = Vec::new();
    for item in it {
        match item {
            Ok(entry) => {
                let (root, relative) = entry.root_relative_paths();
                out.push(json!({
                    "path": rel_to(tmp, entry.path()),
                    "root": rel_to(tmp, root),
                    "root_raw": root.to_string_lossy(),
                    "relative": relative.to_string_lossy(),
                    "joined_eq": root.join(relative) == entry.path(),
                    "depth": entry.depth(),
                    "is_dir": entry.file_type().is_dir(),
                }));
            },
            Err(error) => {
                out.push(json!({
                    "error": true,
                    "path": error.path().map(|p| rel_to(tmp, p)),
                    "depth": error.depth(),
                    "msg": error.to_string(),
                }));
            },
        }
        if out.len() > 10_000 {
            out.push(json!({"truncated": true}));
            break;
        }
    }
    out
}

fn collect_glob<I>(it: I, tmp: &Path) -> Vec<Value>
where
    I: FileIterator<Entry = wax::walk::GlobEntry>,
{
    let mut out = Vec::new();
    for item in it {
        match item {
            Ok(entry) => {
                let (root, relative) = entry.root_relative_paths();
                out.push(json!({
                    "path": rel_to(tmp, entry.path()),
                    "root": rel_to(tmp, root),
                    "root_raw": root.to_string_lossy(),
                    "relative": relative.to_string_lossy(),
                    "joined_eq": root.join(relative) == entry.path(),
                    "depth": entry.depth(),
                    "is_dir": entry.file_type().is_dir(),
                    "matched": entry.matched().complete(),
                    "cand": entry.to_candidate_path().to_string(),
                }));
            },
            Err(error) => {
                out.push(json!({
                    "error": true,
                    "path": error.path().map(|p| rel_to(tmp, p)),
                    "depth": error.depth(),
                    "msg": error.to_string(),
                }));
            },
        }
        if out.len() > 10_000 {
            out.push(json!({"truncated": true}));
            break;
        }
    }
    out
}

fn verdict(tree: &[String], file: &[String], log: &Rc<RefCell<Vec<String>>>, e: &dyn Entry) -> Option<EntryResidue> {
    let rel = e.root_relative_paths().1.to_string_lossy().into_owned();
    log.borrow_mut().push(rel.clone());
    if tree.iter().any(|t| *t == rel) {
        Some(EntryResidue::Tree)
    }
    else if file.iter().any(|t| *t == rel) {
        Some(EntryResidue::File)
    }
    else {
        None
    }
}

fn build_not_pattern(pats: &[String], mode: &str) -> Result<wax::Any<'static>, wax::BuildError> {
    match mode {
        "glob" | "any_glob" | "owned" => {
            let globs = pats
                .iter()
                .map(|p| Glob::new(p).map(Glob::into_owned))
                .collect::<Result<Vec<_>, _>>()?;
            wax::any(globs)
        },
        _ => {
            let globs = pats
                .iter()
                .map(|p| Glob::new(p).map(Glob::into_owned))
                .collect::<Result<Vec<_>, _>>()?;
            wax::any(globs)
        },
    }
}

macro_rules! layer_fn {
    ($name:ident, $next:ident, $collect:ident, [$($bound:tt)*]) => {
        fn $name<I>(it: I, layers: &[Layer], tmp: &Path) -> Result<Vec<Value>, String>
        where
            I: 'static + FileIterator $($bound)*,
            I::Entry: 'static,
            I::Residue: 'static,
        {
            match layers.split_first() {
                None => Ok($collect(it, tmp)),
                Some((Layer::Not { pats, mode }, rest)) => {
                    // `single` hands the expression text itself to `not`.
                    if mode == "single" {
                        let it = it.not(pats[0].as_str()).map_err(|e| e.to_string())?;
                        $next(it, rest, tmp)
                    }
                    else {
                        let it = it
                            .not(build_not_pattern(pats, mode).map_err(|e| e.to_string())?)
                            .map_err(|e| e.to_string())?;
                        $next(it, rest, tmp)
                    }
                },
                Some((Layer::Filter { tree, file, log }, rest)) => {
                    let (tree, file, log) = (tree.clone(), file.clone(), log.clone());
                    let it = it.filter_entry(move |e| verdict(&tree, &file, &log, e));
                    $next(it, rest, tmp)
                },
            }
        }
    };
}

fn collect_plain<I: FileIterator>(it: I, tmp: &Path) -> Vec<Value> {
    collect(it, tmp, false)
}

fn end_plain<I: FileIterator>(it: I, _layers: &[Layer], tmp: &Path) -> Result<Vec<Value>, String> {
    Ok(collect_plain(it, tmp))
}
fn end_glob<I: FileIterator<Entry = wax::walk::GlobEntry>>(
    it: I,
    _layers: &[Layer],
    tmp: &Path,
) -> Result<Vec<Value>, String> {
    Ok(collect_glob(it, tmp))
}

layer_fn!(plain4, end_plain, collect_plain, []);
layer_fn!(plain3, plain4, collect_plain, []);
layer_fn!(plain2, plain3, collect_plain, []);
layer_fn!(plain1, plain2, collect_plain, []);
layer_fn!(plain0, plain1, collect_plain, []);
layer_fn!(glob4, end_glob, collect_glob, [<Entry = wax::walk::GlobEntry>]);
layer_fn!(glob3, glob4, collect_glob, [<Entry = wax::walk::GlobEntry>]);
layer_fn!(glob2, glob3, collect_glob, [<Entry = wax::walk::GlobEntry>]);
layer_fn!(glob1, glob2, collect_glob, [<Entry = wax::walk::GlobEntry>]);
layer_fn!(glob0, glob1, collect_glob, [<Entry = wax::walk::GlobEntry>]);

fn behavior(cmd: &Value) -> WalkBehavior {
    let b = &cmd["behavior"];
    let link = match b["link"].as_str() {
        Some("target") => LinkBehavior::ReadTarget,
        _ => LinkBehavior::ReadFile,
    };
    let min = b["min"].as_u64().map(|n| n as usize);
    let max = b["max"].as_u64().map(|n| n as usize);
    let depth = if min.is_none() && max.is_none() {
        DepthBehavior::Unbounded
    }
    else {
        DepthBehavior::bounded(min, max).unwrap_or(DepthBehavior::Unbounded)
    };
    WalkBehavior { depth, link }
}

static mut COUNTER: usize = 0;

pub fn op_walk(cmd: &Value) -> Value {
    let n = unsafe {
        COUNTER += 1;
        COUNTER
    };
    let tmp: PathBuf = std::env::temp_dir().join(format!("waxprobe-{}-{}", std::process::id(), n));
    let _ = std::fs::remove_dir_all(&tmp);
    std::fs::create_dir_all(&tmp).unwrap();
    let tmp = tmp.canonicalize().unwrap();
    let result = (|| -> Result<Value, String> {
        for p in cmd["tree"].as_array().cloned().unwrap_or_default() {
            let p = p.as_str().unwrap_or("").to_string();
            if let Some(dir) = p.strip_suffix('/') {
                std::fs::create_dir_all(tmp.join(decode_name(dir))).map_err(|e| e.to_string())?;
            }
            else {
                let f = tmp.join(decode_name(&p));
                if let Some(parent) = f.parent() {
                    std::fs::create_dir_all(parent).map_err(|e| e.to_string())?;
                }
                std::fs::write(&f, b"").map_err(|e| e.to_string())?;
            }
        }
        for l in cmd["links"].as_array().cloned().unwrap_or_default() {
            let link = tmp.join(l[0].as_str().unwrap_or(""));
            let target = l[1].as_str().unwrap_or("").replace("{ROOT}", &tmp.to_string_lossy());
            std::os::unix::fs::symlink(target, link).map_err(|e| e.to_string())?;
        }
        let unreadable: Vec<PathBuf> = cmd["unreadable"]
            .as_array()
            .cloned()
            .unwrap_or_default()
            .iter()
            .map(|p| tmp.join(p.as_str().unwrap_or("")))
            .collect();
        let root_esc = wax::escape(&tmp.to_string_lossy()).into_owned();
        let subst = |s: &str| s.replace("{ROOT}", &root_esc);
        let mut logs = Vec::new();
        let layers: Vec<Layer> = cmd["stack"]
            .as_array()
            .cloned()
            .unwrap_or_default()
            .iter()
            .map(|l| {
                if l["not"].is_object() {
                    Layer::Not {
                        pats: l["not"]["pats"]
                            .as_array()
                            .unwrap()
                            .iter()
                            .map(|p| subst(p.as_str().unwrap()))
                            .collect(),
                        mode: l["not"]["mode"].as_str().unwrap_or("any_text").to_string(),
                    }
                }
                else {
                    let log = Rc::new(RefCell::new(Vec::new()));
                    logs.push(log.clone());
                    let list = |v: &Value| -> Vec<String> {
                        v.as_array()
                            .cloned()
                            .unwrap_or_default()
                            .iter()
                            .map(|p| p.as_str().unwrap_or("").to_string())
                            .collect()
                    };
                    Layer::Filter {
                        tree: list(&l["filter"]["tree"]),
                        file: list(&l["filter"]["file"]),
                        log,
                    }
                }
            })
            .collect();
        if layers.len() > 4 {
            return Err("at most 4 layers".into());
        }
        let base = cmd["base"].as_str().unwrap_or("").replace("{ROOT}", &tmp.to_string_lossy());
        let old = std::env::current_dir().map_err(|e| e.to_string())?;
        std::env::set_current_dir(&tmp).map_err(|e| e.to_string())?;
        // Unreadable directories only take effect for non-root users; report whether they did.
        use std::os::unix::fs::PermissionsExt;
        for p in &unreadable {
            let _ = std::fs::set_permissions(p, std::fs::Permissions::from_mode(0o000));
        }
        let unreadable_effective =
            unreadable.iter().all(|p| std::fs::read_dir(p).is_err()) && !unreadable.is_empty();
        let items = match cmd["glob"].as_str() {
            Some(e) => {
                let e = subst(e);
                match Glob::new(&e) {
                    Ok(g) => {
                        let it = g.walk_with_behavior(base.clone(), behavior(cmd));
                        glob0(it, &layers, &tmp)
                    },
                    Err(err) => Err(err.to_string()),
                }
            },
            None => {
                let it = Path::new(&base).walk_with_behavior(behavior(cmd));
                plain0(it, &layers, &tmp)
            },
        };
        for p in &unreadable {
            let _ = std::fs::set_permissions(p, std::fs::Permissions::from_mode(0o755));
        }
        std::env::set_current_dir(old).map_err(|e| e.to_string())?;
        let items = items?;
        Ok(json!({"ok": true, "items": items, "tmp": tmp.to_string_lossy(),
                  "unreadable_effective": unreadable_effective,
                  "observed": logs.iter().map(|l| l.borrow().clone()).collect::<Vec<_>>()}))
    })();
    let _ = std::fs::remove_dir_all(&tmp);
    match result {
        Ok(v) => v,
        Err(e) => json!({"ok": false, "err": e}),
    }
}
