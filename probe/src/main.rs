//! waxprobe: runs the real, freshly built `wax` API on JSON-line commands and reports what the
//! code did, together with an SMT-LIB `RegLan` rendering of every regular expression that the
//! real code compiled (obtained from the same `regex-syntax` HIR the `regex` crate executes).
//!
//! Nothing in here re-implements glob semantics: patterns are read through the
//! `olson_sean_k_wax_verif` accessors and only *translated* (HIR -> SMT-LIB), never interpreted.

use regex_syntax::hir::{Class, Hir, HirKind, Look};
use serde_json::{json, Value};
use std::cell::RefCell;
use std::fmt::Write as _;
use std::io::{BufRead, Write};
use std::path::Path;
use wax::query::{DepthVariance, TextVariance, Variance, When};
use wax::walk::{Entry, FileIterator, PathExt};
use wax::{Any, CandidatePath, Glob, Program};

mod fswalk;

const MAX_CP: u32 = 0x2FFFF; // the SMT-LIB string alphabet ends here

fn ch(c: u32) -> String {
    format!("\"\\u{{{:x}}}\"", c)
}

fn ranges_to_smt(ranges: &[(u32, u32)], out: &mut String) {
    let rs: Vec<(u32, u32)> = ranges
        .iter()
        .filter(|(lo, _)| *lo <= MAX_CP)
        .map(|(lo, hi)| (*lo, std::cmp::min(*hi, MAX_CP)))
        .collect();
    match rs.len() {
        0 => out.push_str("re.none"),
        1 => write!(out, "(re.range {} {})", ch(rs[0].0), ch(rs[0].1)).unwrap(),
        _ => {
            out.push_str("(re.union");
            for (lo, hi) in rs {
                write!(out, " (re.range {} {})", ch(lo), ch(hi)).unwrap();
            }
            out.push(')');
        },
    }
}

/// HIR -> SMT-LIB RegLan. Contains no regex semantics of its own: flags, class set operations,
/// case folding and `.` have already been resolved by `regex-syntax` in the HIR.
fn smt(h: &Hir, out: &mut String) -> Result<(), String> {
    match h.kind() {
        HirKind::Empty => out.push_str("(str.to_re \"\")"),
        HirKind::Literal(lit) => {
            let s = std::str::from_utf8(&lit.0).map_err(|_| "non-utf8 literal".to_string())?;
            out.push_str("(str.to_re \"");
            for c in s.chars() {
                if (c as u32) > MAX_CP {
                    return Err(format!("literal code point beyond SMT alphabet: {:x}", c as u32));
                }
                write!(out, "\\u{{{:x}}}", c as u32).unwrap();
            }
            out.push_str("\")");
        },
        HirKind::Class(Class::Unicode(cls)) => {
            let rs: Vec<(u32, u32)> =
                cls.ranges().iter().map(|r| (r.start() as u32, r.end() as u32)).collect();
            ranges_to_smt(&rs, out);
        },
        HirKind::Class(Class::Bytes(cls)) => {
            if !cls.is_ascii() {
                return Err("non-ascii byte class".into());
            }
            let rs: Vec<(u32, u32)> =
                cls.ranges().iter().map(|r| (r.start() as u32, r.end() as u32)).collect();
            ranges_to_smt(&rs, out);
        },
        HirKind::Look(Look::Start) | HirKind::Look(Look::End) => out.push_str("(str.to_re \"\")"),
        HirKind::Look(l) => return Err(format!("unsupported look {:?}", l)),
        HirKind::Repetition(rep) => match (rep.min, rep.max) {
            (0, None) => {
                out.push_str("(re.* ");
                smt(&rep.sub, out)?;
                out.push(')');
            },
            (1, None) => {
                out.push_str("(re.+ ");
                smt(&rep.sub, out)?;
                out.push(')');
            },
            (m, None) => {
                write!(out, "(re.++ ((_ re.loop {} {}) ", m, m).unwrap();
                smt(&rep.sub, out)?;
                out.push_str(") (re.* ");
                smt(&rep.sub, out)?;
                out.push_str("))");
            },
            (0, Some(1)) => {
                out.push_str("(re.opt ");
                smt(&rep.sub, out)?;
                out.push(')');
            },
            (m, Some(n)) => {
                if m > n {
                    out.push_str("re.none");
                }
                else {
                    write!(out, "((_ re.loop {} {}) ", m, n).unwrap();
                    smt(&rep.sub, out)?;
                    out.push(')');
                }
            },
        },
        HirKind::Capture(cap) => smt(&cap.sub, out)?,
        HirKind::Concat(hs) => {
            out.push_str("(re.++");
            for h in hs {
                out.push(' ');
                smt(h, out)?;
            }
            out.push(')');
        },
        HirKind::Alternation(hs) => {
            out.push_str("(re.union");
            for h in hs {
                out.push(' ');
                smt(h, out)?;
            }
            out.push(')');
        },
    }
    Ok(())
}

const EPS: &str = "(str.to_re \"\")";

/// Capture group table: for every capture group its index, the RegLan of its sub-pattern and the
/// RegLan of everything to its left and to its right (contexts), and whether it sits under a
/// repetition or inside another capture.
fn groups(
    h: &Hir,
    left: &str,
    right: &str,
    under_rep: bool,
    in_cap: bool,
    out: &mut Vec<Value>,
) -> Result<(), String> {
    match h.kind() {
        HirKind::Capture(cap) => {
            let mut sub = String::new();
            smt(&cap.sub, &mut sub)?;
            out.push(json!({"index": cap.index, "left": left, "sub": sub, "right": right,
                            "under_repetition": under_rep, "nested": in_cap}));
            groups(&cap.sub, left, right, under_rep, true, out)?;
        },
        HirKind::Concat(hs) => {
            for i in 0..hs.len() {
                let mut l = String::from("(re.++ ");
                l.push_str(left);
                for h in &hs[..i] {
                    l.push(' ');
                    smt(h, &mut l)?;
                }
                l.push(' ');
                l.push_str(EPS);
                l.push(')');
                let mut r = String::from("(re.++ ");
                r.push_str(EPS);
                for h in &hs[i + 1..] {
                    r.push(' ');
                    smt(h, &mut r)?;
                }
                r.push(' ');
                r.push_str(right);
                r.push(')');
                groups(&hs[i], &l, &r, under_rep, in_cap, out)?;
            }
        },
        HirKind::Alternation(hs) => {
            for h in hs {
                groups(h, left, right, under_rep, in_cap, out)?;
            }
        },
        HirKind::Repetition(rep) => {
            // Contexts under a repetition are not meaningful for a single span; flag it.
            let one_shot = rep.min <= 1 && rep.max == Some(1);
            groups(&rep.sub, left, right, under_rep || !one_shot, in_cap, out)?;
        },
        _ => {},
    }
    Ok(())
}

/// Structural pieces of the top-level concatenation (between `^` and `$`): for each piece its
/// RegLan and the capture indices it contains. Used for the between-capture clause of C04.
fn pieces(h: &Hir) -> Result<Vec<Value>, String> {
    fn caps_in(h: &Hir, out: &mut Vec<u32>) {
        match h.kind() {
            HirKind::Capture(cap) => {
                out.push(cap.index);
                caps_in(&cap.sub, out);
            },
            HirKind::Concat(hs) | HirKind::Alternation(hs) => hs.iter().for_each(|h| caps_in(h, out)),
            HirKind::Repetition(rep) => caps_in(&rep.sub, out),
            _ => {},
        }
    }
    let hs: Vec<&Hir> = match h.kind() {
        HirKind::Concat(hs) => hs.iter().collect(),
        _ => vec![h],
    };
    let mut out = Vec::new();
    for h in hs {
        if matches!(h.kind(), HirKind::Look(_)) {
            continue;
        }
        let mut s = String::new();
        smt(h, &mut s)?;
        let mut cs = Vec::new();
        caps_in(h, &mut cs);
        let whole = matches!(h.kind(), HirKind::Capture(_));
        out.push(json!({"smt": s, "caps": cs, "is_capture": whole}));
    }
    Ok(out)
}

fn count_looks(h: &Hir) -> usize {
    match h.kind() {
        HirKind::Look(_) => 1,
        HirKind::Capture(cap) => count_looks(&cap.sub),
        HirKind::Repetition(rep) => count_looks(&rep.sub),
        HirKind::Concat(hs) | HirKind::Alternation(hs) => hs.iter().map(count_looks).sum(),
        _ => 0,
    }
}

fn is_anchored(h: &Hir) -> bool {
    match h.kind() {
        HirKind::Concat(hs) => {
            hs.len() >= 2
                && matches!(hs[0].kind(), HirKind::Look(Look::Start))
                && matches!(hs[hs.len() - 1].kind(), HirKind::Look(Look::End))
                && count_looks(h) == 2
        },
        _ => false,
    }
}

fn parse_hir(pattern: &str) -> Result<Hir, String> {
    // `ParserBuilder::new()` defaults are those `regex::Regex::new` applies (Unicode, UTF-8, no
    // flags, nest limit 250).
    regex_syntax::ParserBuilder::new().build().parse(pattern).map_err(|e| e.to_string())
}

fn re_info(pattern: &str, with_groups: bool) -> Value {
    match parse_hir(pattern) {
        Ok(hir) => {
            let mut s = String::new();
            if let Err(e) = smt(&hir, &mut s) {
                return json!({"re": pattern, "smt_error": e});
            }
            let mut v = json!({"re": pattern, "smt": s, "anchored": is_anchored(&hir)});
            if with_groups {
                let mut gs = Vec::new();
                match groups(&hir, EPS, EPS, false, false, &mut gs) {
                    Ok(()) => v["groups"] = Value::Array(gs),
                    Err(e) => v["smt_error"] = json!(e),
                }
                match pieces(&hir) {
                    Ok(ps) => v["pieces"] = Value::Array(ps),
                    Err(e) => v["smt_error"] = json!(e),
                }
            }
            v
        },
        Err(e) => json!({"re": pattern, "smt_error": e}),
    }
}

fn when(w: When) -> &'static str {
    match w {
        When::Always => "Always",
        When::Sometimes => "Sometimes",
        When::Never => "Never",
    }
}

fn depth(d: DepthVariance) -> Value {
    match d {
        Variance::Invariant(n) => json!({"inv": n}),
        Variance::Variant(range) => {
            let lo = match range.lower() {
                wax::query::Bounded(n) => Some(n.get()),
                _ => None,
            };
            let hi = match range.upper() {
                wax::query::Bounded(n) => Some(n.get()),
                _ => None,
            };
            json!({"lo": lo, "hi": hi})
        },
    }
}

fn text(t: TextVariance<'_>) -> Value {
    match t {
        Variance::Invariant(t) => json!(t.as_ref()),
        Variance::Variant(()) => Value::Null,
    }
}

fn describe_glob(g: &Glob<'_>, full: bool) -> Value {
    let pattern = wax::verif::glob_pattern(g);
    let caps: Vec<(usize, usize, usize)> =
        g.captures().map(|c| (c.index(), c.span().0, c.span().1)).collect();
    let mut v = re_info(&pattern, full);
    v["caps"] = json!(caps);
    v["exh"] = json!(when(g.is_exhaustive()));
    v["root"] = json!(when(g.has_root()));
    v["depth"] = depth(g.depth());
    v["text"] = text(g.text());
    v["semlit"] = json!(g.has_semantic_literals());
    v["empty"] = json!(g.is_empty());
    v["display"] = json!(g.to_string());
    v
}

fn describe_any(a: &Any<'_>) -> Value {
    let pattern = wax::verif::any_pattern(a);
    let mut v = re_info(&pattern, false);
    v["exh"] = json!(when(a.is_exhaustive()));
    v["root"] = json!(when(a.has_root()));
    v["depth"] = depth(a.depth());
    v["text"] = text(a.text());
    v
}

fn strs(v: &Value) -> Vec<String> {
    v.as_array()
        .map(|a| a.iter().map(|x| x.as_str().unwrap_or("").to_string()).collect())
        .unwrap_or_default()
}

fn build_any<'t>(pats: &'t [String], mode: &str) -> Result<Any<'t>, wax::BuildError> {
    match mode {
        "text" => wax::any(pats.iter().map(|p| p.as_str())),
        "glob" => {
            let globs = pats.iter().map(|p| Glob::new(p)).collect::<Result<Vec<_>, _>>()?;
            wax::any(globs)
        },
        "owned" => {
            let globs = pats
                .iter()
                .map(|p| Glob::new(p).map(Glob::into_owned))
                .collect::<Result<Vec<_>, _>>()?;
            wax::any(globs)
        },
        "nested" => {
            // any([any([p0]), any([p1, ...])])
            let (head, tail) = pats.split_at(std::cmp::min(1, pats.len()));
            let mut inner = vec![wax::any(head.iter().map(|p| p.as_str()))?];
            if !tail.is_empty() {
                inner.push(wax::any(tail.iter().map(|p| p.as_str()))?);
            }
            wax::any(inner)
        },
        "nested_pairs" => {
            // any([any(first half), any(second half)]): sibling nested combinators with several
            // patterns each
            let (head, tail) = pats.split_at(pats.len() / 2);
            let mut inner = Vec::new();
            if !head.is_empty() {
                inner.push(wax::any(head.iter().map(|p| p.as_str()))?);
            }
            inner.push(wax::any(tail.iter().map(|p| p.as_str()))?);
            wax::any(inner)
        },
        "nested_glob" => {
            let mut inner = Vec::new();
            for p in pats {
                inner.push(wax::any([Glob::new(p)?])?);
            }
            wax::any(inner)
        },
        _ => panic!("unknown any mode {mode}"),
    }
}

fn op_glob(cmd: &Value) -> Value {
    let e = cmd["e"].as_str().unwrap();
    match Glob::new(e) {
        Ok(g) => {
            let mut v = describe_glob(&g, true);
            v["ok"] = json!(true);
            v["comps"] = Value::Array(
                g.verif_walk_component_patterns().iter().map(|p| re_info(p, false)).collect(),
            );
            // the same programs and anchor for the glob after it has been re-owned (the walker
            // derives them from the token tree, the complete program is retained)
            let owned = g.clone().into_owned();
            v["comps_owned"] = json!(owned.verif_walk_component_patterns());
            let (oroot, opivot) = owned.verif_anchor("B0");
            let (broot, bpivot) = g.verif_anchor("B0");
            v["anchor"] = json!({"root": broot.to_string_lossy(), "pivot": bpivot,
                                 "owned_root": oroot.to_string_lossy(), "owned_pivot": opivot});
            // partition
            let (prefix, post) = g.clone().partition();
            let mut part = json!({"prefix": prefix.to_string_lossy()});
            match post {
                Some(post) => {
                    let mut pv = describe_glob(&post, false);
                    let text = post.to_string();
                    // re-partition
                    let (pre2, post2) = post.clone().partition();
                    pv["repart"] = json!({"prefix": pre2.to_string_lossy(),
                                          "text": post2.map(|p| p.to_string())});
                    // rebuild from text
                    pv["rebuilt"] = match Glob::new(&text) {
                        Ok(r) => describe_glob(&r, false),
                        Err(err) => json!({"error": err.to_string()}),
                    };
                    part["post"] = pv;
                },
                None => part["post"] = Value::Null,
            }
            v["part"] = part;
            if cmd["routes"].as_bool().unwrap_or(false) {
                let mut routes = serde_json::Map::new();
                let disp = g.to_string();
                routes.insert(
                    "display_new".into(),
                    match Glob::new(&disp) {
                        Ok(r) => describe_glob(&r, false),
                        Err(err) => json!({"error": err.to_string()}),
                    },
                );
                routes.insert("clone".into(), describe_glob(&g.clone(), false));
                routes.insert("into_owned".into(), describe_glob(&g.clone().into_owned(), false));
                routes.insert(
                    "from_str".into(),
                    match e.parse::<Glob<'static>>() {
                        Ok(r) => describe_glob(&r, false),
                        Err(err) => json!({"error": err.to_string()}),
                    },
                );
                routes.insert(
                    "try_from".into(),
                    match Glob::try_from(e) {
                        Ok(r) => describe_glob(&r, false),
                        Err(err) => json!({"error": err.to_string()}),
                    },
                );
                let anyd = |r: Result<Any<'_>, wax::BuildError>| match r {
                    Ok(a) => describe_any(&a),
                    Err(err) => json!({"error": err.to_string()}),
                };
                routes.insert("any_text".into(), anyd(wax::any([e])));
                routes.insert("any_glob".into(), anyd(wax::any([g.clone()])));
                routes.insert("any_owned".into(), anyd(wax::any([g.clone().into_owned()])));
                routes.insert("any_nested".into(), anyd(wax::any([wax::any([g.clone()])])));
                let (pb, qb) = g.clone().partition();
                let (po, qo) = g.clone().into_owned().partition();
                routes.insert(
                    "part_borrowed".into(),
                    json!({"prefix": pb.to_string_lossy(), "post": qb.map(|q| describe_glob(&q, false))}),
                );
                routes.insert(
                    "part_owned".into(),
                    json!({"prefix": po.to_string_lossy(), "post": qo.map(|q| describe_glob(&q, false))}),
                );
                v["routes"] = Value::Object(routes);
            }
            v
        },
        Err(err) => json!({"ok": false, "err": err.to_string(),
                           "kind": format!("{:?}", err).split('(').nth(2).unwrap_or("").chars().take(24).collect::<String>()}),
    }
}

/// C17: every span the real code reports (capture spans of a built glob and of its postfix after
/// partitioning, locations of a build error), with the result of slicing the expression by it the
/// way the documentation does (`&expression[start..][..n]`, done with `get` so that a span that
/// would make it panic is data).
fn op_spans(cmd: &Value) -> Value {
    let e = cmd["e"].as_str().unwrap();
    fn slice(e: &str, s: usize, n: usize) -> Value {
        match e.get(s..).and_then(|t| t.get(..n)) {
            Some(t) => json!(t),
            None => Value::Null,
        }
    }
    fn caps(g: &Glob<'_>, e: &str) -> Value {
        Value::Array(
            g.captures()
                .map(|c| {
                    let (s, n) = c.span();
                    json!({"index": c.index(), "start": s, "len": n, "slice": slice(e, s, n)})
                })
                .collect(),
        )
    }
    match Glob::new(e) {
        Ok(g) => {
            let mut v = json!({"ok": true, "caps": caps(&g, e)});
            let (prefix, post) = g.clone().partition();
            v["prefix"] = json!(prefix.to_string_lossy());
            if let Some(post) = post {
                let text = post.to_string();
                let rebuilt = match Glob::new(&text) {
                    Ok(r) => caps(&r, &text),
                    Err(err) => json!({"error": err.to_string()}),
                };
                v["post"] = json!({"text": text, "caps": caps(&post, &text), "rebuilt_caps": rebuilt});
            }
            let owned = g.clone().into_owned();
            v["owned_caps"] = caps(&owned, e);
            v
        },
        Err(err) => {
            let locs: Vec<Value> = err
                .locations()
                .map(|l| {
                    let (s, n) = l.span();
                    json!({"start": s, "len": n, "slice": slice(e, s, n), "label": l.to_string()})
                })
                .collect();
            json!({"ok": false, "err": err.to_string(), "locations": locs})
        },
    }
}

fn op_any(cmd: &Value) -> Value {
    let pats = strs(&cmd["pats"]);
    let mode = cmd["mode"].as_str().unwrap_or("text");
    match build_any(&pats, mode) {
        Ok(a) => {
            let mut v = describe_any(&a);
            v["ok"] = json!(true);
            v
        },
        Err(err) => json!({"ok": false, "err": err.to_string()}),
    }
}

fn op_not(cmd: &Value) -> Value {
    let pats = strs(&cmd["pats"]);
    let mode = cmd["mode"].as_str().unwrap_or("any_text");
    let walk = || Path::new("/nonexistent-waxprobe").walk();
    let pair = |p: (Option<String>, Option<String>)| {
        json!({"ex": p.0.map(|p| re_info(&p, false)), "nex": p.1.map(|p| re_info(&p, false))})
    };
    // The reference for "matches the negation" is the public `any` / `Glob` program.
    let (reference, parts) = match mode {
        "single" => {
            let g = match Glob::new(&pats[0]) {
                Ok(g) => g,
                Err(err) => return json!({"ok": false, "err": err.to_string()}),
            };
            let n = match walk().not(pats[0].as_str()) {
                Ok(n) => n,
                Err(err) => return json!({"ok": false, "err": err.to_string()}),
            };
            (describe_glob(&g, false), pair(n.verif_patterns()))
        },
        "glob" => {
            let g = match Glob::new(&pats[0]) {
                Ok(g) => g,
                Err(err) => return json!({"ok": false, "err": err.to_string()}),
            };
            let n = match walk().not(g.clone()) {
                Ok(n) => n,
                Err(err) => return json!({"ok": false, "err": err.to_string()}),
            };
            (describe_glob(&g, false), pair(n.verif_patterns()))
        },
        m => {
            let amode = m.strip_prefix("any_").unwrap_or(m);
            let a = match build_any(&pats, amode) {
                Ok(a) => a,
                Err(err) => return json!({"ok": false, "err": err.to_string()}),
            };
            let n = match walk().not(build_any(&pats, amode)) {
                Ok(n) => n,
                Err(err) => return json!({"ok": false, "err": err.to_string()}),
            };
            (describe_any(&a), pair(n.verif_patterns()))
        },
    };
    json!({"ok": true, "ref": reference, "parts": parts})
}

fn matched_info<'t, P: Program<'t>>(p: &P, ncaps: usize, path: &str) -> Value {
    let is_match = p.is_match(path);
    let cand = CandidatePath::from(path);
    let m = p.matched(&cand);
    match m {
        Some(m) => {
            let caps: Vec<Option<String>> =
                (0..=ncaps + 1).map(|i| m.get(i).map(|s| s.to_string())).collect();
            // byte offsets of every participating capture within the path
            let base = path.as_ptr() as usize;
            let offs: Vec<Option<(usize, usize)>> = (0..=ncaps + 1)
                .map(|i| {
                    m.get(i).map(|s| {
                        let start = (s.as_ptr() as usize).wrapping_sub(base);
                        (start, start + s.len())
                    })
                })
                .collect();
            let complete = m.complete().to_string();
            let owned = m.to_owned();
            let caps_owned: Vec<Option<String>> =
                (0..=ncaps + 1).map(|i| owned.get(i).map(|s| s.to_string())).collect();
            let into = m.into_owned();
            let caps_into: Vec<Option<String>> =
                (0..=ncaps + 1).map(|i| into.get(i).map(|s| s.to_string())).collect();
            let candp = into.to_candidate_path().to_string();
            json!({"m": is_match, "matched": true, "complete": complete, "caps": caps, "offs": offs,
                   "owned_same": caps == caps_owned && caps == caps_into && complete == into.complete(),
                   "cand": candp})
        },
        None => json!({"m": is_match, "matched": false}),
    }
}

fn route_glob<'t>(e: &'t str, route: &str) -> Result<Glob<'t>, String> {
    let g = Glob::new(e).map_err(|e| e.to_string())?;
    Ok(match route {
        "" | "new" => g,
        "clone" => g.clone(),
        "into_owned" => g.into_owned(),
        "from_str" => e.parse::<Glob<'static>>().map_err(|e| e.to_string())?,
        "try_from" => Glob::try_from(e).map_err(|e| e.to_string())?,
        "display_new" => {
            let d = g.to_string();
            Glob::new(&d).map(Glob::into_owned).map_err(|e| e.to_string())?
        },
        "part_post" => g.partition().1.ok_or_else(|| "no postfix".to_string())?,
        "part_post_owned" => g.into_owned().partition().1.ok_or_else(|| "no postfix".to_string())?,
        r => return Err(format!("unknown route {r}")),
    })
}

fn op_match(cmd: &Value) -> Value {
    let paths = strs(&cmd["paths"]);
    let t = &cmd["target"];
    if let Some(e) = t["glob"].as_str() {
        let route = t["route"].as_str().unwrap_or("");
        match route_glob(e, route) {
            Ok(g) => {
                let n = g.captures().count();
                json!({"ok": true, "ncaps": n,
                       "results": paths.iter().map(|p| matched_info(&g, n, p)).collect::<Vec<_>>()})
            },
            Err(err) => json!({"ok": false, "err": err}),
        }
    }
    else if t["any"].is_array() {
        let pats = strs(&t["any"]);
        let mode = t["mode"].as_str().unwrap_or("text");
        match build_any(&pats, mode) {
            Ok(a) => json!({"ok": true, "ncaps": 0,
                            "results": paths.iter().map(|p| matched_info(&a, 0, p)).collect::<Vec<_>>()}),
            Err(err) => json!({"ok": false, "err": err.to_string()}),
        }
    }
    else if let Some(re) = t["re"].as_str() {
        match regex::Regex::new(re) {
            Ok(r) => json!({"ok": true,
                            "results": paths.iter().map(|p| {
                                // the regex crate's own view of the groups (ground truth for the
                                // index mapping of MatchedText)
                                let caps: Option<Vec<Option<String>>> = r.captures(p).map(|c| {
                                    c.iter().map(|g| g.map(|g| g.as_str().to_string())).collect()
                                });
                                json!({"m": r.is_match(p), "caps": caps})
                            }).collect::<Vec<_>>()}),
            Err(err) => json!({"ok": false, "err": err.to_string()}),
        }
    }
    else {
        json!({"ok": false, "err": "bad target"})
    }
}

fn op_esc(cmd: &Value) -> Value {
    let raw = cmd["raw"].as_str().unwrap();
    let escaped = wax::escape(raw);
    let borrowed = matches!(escaped, std::borrow::Cow::Borrowed(_));
    let escaped = escaped.into_owned();
    let mut v = match Glob::new(&escaped) {
        Ok(g) => {
            let mut v = describe_glob(&g, false);
            v["ok"] = json!(true);
            v["is_match_raw"] = json!(g.is_match(raw));
            v
        },
        Err(err) => json!({"ok": false, "err": err.to_string()}),
    };
    v["escaped"] = json!(escaped);
    v["borrowed"] = json!(borrowed);
    v
}

fn op_meta(cmd: &Value) -> Value {
    let chars: Vec<char> = cmd["chars"].as_str().unwrap().chars().collect();
    json!({"ok": true,
           "meta": chars.iter().map(|c| wax::is_meta_character(*c)).collect::<Vec<_>>(),
           "contextual": chars.iter().map(|c| wax::is_contextual_meta_character(*c)).collect::<Vec<_>>()})
}

fn op_anchor(cmd: &Value) -> Value {
    let e = cmd["e"].as_str().unwrap();
    let base = cmd["base"].as_str().unwrap();
    match Glob::new(e) {
        Ok(g) => {
            let (root, pivot) = g.verif_anchor(base);
            json!({"ok": true, "root": root.to_string_lossy(), "pivot": pivot,
                   "ncomps": g.verif_walk_component_patterns().len()})
        },
        Err(err) => json!({"ok": false, "err": err.to_string()}),
    }
}

fn op_case_fold(cmd: &Value) -> Value {
    // Simple case folding orbit of single characters, from regex-syntax's tables (trusted base).
    use regex_syntax::hir::{ClassUnicode, ClassUnicodeRange};
    let chars: Vec<char> = cmd["chars"].as_str().unwrap().chars().collect();
    let mut out = serde_json::Map::new();
    for c in chars {
        let mut cls = ClassUnicode::new([ClassUnicodeRange::new(c, c)]);
        cls.case_fold_simple();
        let mut orbit = String::new();
        for r in cls.ranges() {
            let mut x = r.start() as u32;
            while x <= r.end() as u32 {
                if let Some(ch) = char::from_u32(x) {
                    orbit.push(ch);
                }
                x += 1;
            }
        }
        out.insert(c.to_string(), json!(orbit));
    }
    json!({"ok": true, "orbits": out})
}

thread_local! {
    static PANIC: RefCell<Option<(String, String)>> = RefCell::new(None);
}

fn main() {
    std::panic::set_hook(Box::new(|info| {
        let msg = if let Some(s) = info.payload().downcast_ref::<&str>() {
            s.to_string()
        }
        else if let Some(s) = info.payload().downcast_ref::<String>() {
            s.clone()
        }
        else {
            "<non-string panic>".to_string()
        };
        let loc = info.location().map(|l| format!("{}:{}", l.file(), l.line())).unwrap_or_default();
        PANIC.with(|p| *p.borrow_mut() = Some((msg, loc)));
    }));
    let stdin = std::io::stdin();
    let stdout = std::io::stdout();
    let mut out = std::io::BufWriter::new(stdout.lock());
    for line in stdin.lock().lines() {
        let line = match line {
            Ok(l) => l,
            Err(_) => break,
        };
        if line.trim().is_empty() {
            continue;
        }
        let cmd: Value = match serde_json::from_str(&line) {
            Ok(v) => v,
            Err(e) => {
                writeln!(out, "{}", json!({"bad_command": e.to_string()})).unwrap();
                out.flush().unwrap();
                continue;
            },
        };
        let id = cmd["id"].clone();
        let r = std::panic::catch_unwind(|| match cmd["op"].as_str().unwrap_or("") {
            "glob" => op_glob(&cmd),
            "any" => op_any(&cmd),
            "not" => op_not(&cmd),
            "match" => op_match(&cmd),
            "esc" => op_esc(&cmd),
            "spans" => op_spans(&cmd),
            "meta" => op_meta(&cmd),
            "anchor" => op_anchor(&cmd),
            "fold" => op_case_fold(&cmd),
            "re" => re_info(cmd["re"].as_str().unwrap(), cmd["groups"].as_bool().unwrap_or(false)),
            "walk" => fswalk::op_walk(&cmd),
            "ping" => json!({"ok": true, "pong": true}),
            other => json!({"ok": false, "err": format!("unknown op {other}")}),
        });
        let mut v = match r {
            Ok(v) => v,
            Err(_) => {
                let (msg, loc) = PANIC.with(|p| p.borrow_mut().take()).unwrap_or_default();
                json!({"panic": true, "msg": msg, "loc": loc})
            },
        };
        v["id"] = id;
        writeln!(out, "{}", v).unwrap();
        out.flush().unwrap();
    }
    // Keep unused-import lints quiet for items used only in some ops.
    let _ = (|e: &dyn Entry| e.depth(), |i: wax::walk::WalkTree| i.not(""));
}
