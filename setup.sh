#!/bin/bash
# Builds the framework from files on disk only (offline). Idempotent.
set -e
cd "$(dirname "$0")"
export CARGO_NET_OFFLINE=true
mkdir -p .build evidence replays
[ -f probe/Cargo.lock ] || cp /repo/Cargo.lock probe/Cargo.lock
RUSTFLAGS="--cfg olson_sean_k_wax_verif -A warnings" WAX_VERIF_DIR="$PWD" \
  cargo build --release --offline --manifest-path probe/Cargo.toml --target-dir .build/probe
python3-vt -c "import z3; print('z3', z3.get_version_string())"
echo setup ok
