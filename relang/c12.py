"""C12 -- root and semantic-literal queries agree with what the pattern matches (engine A)."""
import gen
import progs
import roles as roles_mod
from core import probe, member, inter, diff, cat, SEP, tier, main_wrapper, Inconclusive
from gen import rep_bounds
from session import Session

UNROOTED = diff("ANY", cat(SEP, "ANY"))   # strings that do not begin with '/'


def is_boundary(it, side):
    """Does item end (side='r') / begin (side='l') with a component boundary?"""
    if it[0] == "sep":
        return True
    if it[0] == "tree":
        return it[2] if side == "r" else it[1]
    return False


def has_dot_component(g, left, right):
    """True only when some component is *certainly* spelled entirely as literal '.' or '..'."""
    items = gen.nonflag(g)
    n = len(items)
    seg = []          # current run of literal texts
    seg_left = left   # is the current run delimited on the left?
    found = False
    for i, it in enumerate(items):
        if it[0] == "lit":
            seg.append(it[1])
            continue
        bl = is_boundary(it, "l")
        if seg is not None and seg and seg_left and bl and "".join(seg) in (".", ".."):
            found = True
        # nested branches
        prev_b = (i == 0 and left) or (i > 0 and is_boundary(items[i - 1], "r"))
        next_b = (i == n - 1 and right) or (i < n - 1 and is_boundary(items[i + 1], "l"))
        if it[0] == "alt":
            for b in it[1]:
                if has_dot_component(b, prev_b, next_b):
                    found = True
        elif it[0] == "rep":
            lo, hi = rep_bounds(it[2])
            single = hi is not None and hi <= 1
            if has_dot_component(it[1], prev_b and single, next_b and single):
                found = True
        seg = []
        seg_left = is_boundary(it, "r")
    if seg and seg_left and right and "".join(seg) in (".", ".."):
        found = True
    return found


def run():
    ses = Session("C12")
    rep = ses.rep
    recs, stats, _ = progs.load()
    # combinators
    texts = [r["text"] for r in recs]
    rooted = [r["text"] for r in recs if r["row"]["root"] == "Always"]
    pairs = []
    n_pairs = 300 if tier() == "quick" else 5000
    for _ in range(n_pairs):
        a = ses.rnd.choice(rooted) if rooted and ses.rnd.random() < 0.7 else ses.rnd.choice(texts)
        b = ses.rnd.choice(rooted) if rooted and ses.rnd.random() < 0.5 else ses.rnd.choice(texts)
        pairs.append(([a, b], ses.rnd.choice(["text", "glob", "nested"])))
        # nested: any([any([a]), any([b, c])]) with an inner combinator that mixes rooted and unrooted
        c = ses.rnd.choice(texts)
        pairs.append(([a, b, c], "nested"))
        pairs.append(([a, c, b], "nested"))
    anyrows = probe([{"op": "any", "pats": p, "mode": m} for p, m in pairs])
    targets = [(r["text"], {"glob": r["text"]}, r["row"]) for r in recs]
    for (p, m), row in zip(pairs, anyrows):
        if row.get("ok") and "smt" in row:
            targets.append(("any(%s;%s)" % (",".join(p), m), {"any": p, "mode": m}, row))
    tasks = []
    always = 0
    for i, (label, spec, row) in enumerate(targets):
        if row["root"] == "Always":
            always += 1
            tasks.append((i, member(inter(row["smt"], UNROOTED))))
            # vacuity witness: the program matches something at all
            tasks.append((("ne", i), member(row["smt"])))
    res = ses.solve(tasks)
    wit = []
    nonempty = 0
    for key, (status, w, _) in res.items():
        if isinstance(key, tuple):
            nonempty += status == "sat"
            continue
        if status in ("unknown", "error"):
            rep.undecided_add({"program": targets[key][0], "why": w})
        elif status == "sat":
            wit.append((key, w))
    real = ses.replay_match([(targets[i][1], w) for i, w in wit])
    for (i, w), r in zip(wit, real):
        if not r["m"] or w.startswith("/"):
            raise Inconclusive("witness %r for %r does not reproduce" % (w, targets[i][0]))
        rep.candidate({"always-rooted-matches-unrooted"},
                      {"short": {"program": targets[i][0], "has_root": "Always", "matches": w}})
    # concrete per-program clauses
    sometimes = 0
    semlit_checked = 0
    for r in recs:
        if r["row"]["root"] == "Sometimes":
            sometimes += 1
            # the known C06 weakness (branches nested two levels deep) explains a Sometimes only
            # for expressions of that class; `{/a,b}` building would be a new violation
            ast = r["ast"]
            if ast is None or gen.show(ast) != r["text"]:
                ast = gen.parse(r["text"])
            roles = {"glob-sometimes-rooted"}
            if ast is not None and roles_mod.boundary_at_nested_branch_edge(ast):
                roles = {"glob-sometimes-rooted-nested-branch-edge"}
            rep.candidate(roles, {"short": {"program": r["text"], "has_root": "Sometimes"}})
        if r["ast_ok"]:
            truth = has_dot_component(r["ast"], True, True)
            if truth:
                semlit_checked += 1
                if not r["row"]["semlit"]:
                    rep.candidate({"semantic-literal-missed"},
                                  {"short": {"program": r["text"], "has_semantic_literals": False}})
    for (label, spec, row) in [t for t in targets if t[2]["root"] == "Always"][:8]:
        rep.sample({"program": label, "has_root": "Always",
                    "obligation": "forall s. s in L(program) => s starts with '/'"})
    rep.assumptions.append("has_semantic_literals and the Always/Never clause for globs are compared per program (concrete), only the root clause is a for-all-paths solver query")
    return ses.finish(always, {"programs_total": len(targets), "always_rooted": always,
                               "always_rooted_nonempty": nonempty,
                               "globs_reporting_sometimes": sometimes,
                               "semantic_literal_programs": semlit_checked, "generated": stats,
                               "functions_encoded": ["token::parse", "rule::check", "encode::compile",
                                                      "Token::has_root", "Literal::is_semantic_literal"]},
                      inconclusive=None if nonempty else "no non-empty always-rooted program")


if __name__ == "__main__":
    main_wrapper(run)
