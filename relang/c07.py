"""C07 -- branches compose: alternation is union, repetition is iteration, `any` is union.
Metamorphic: both sides are the implementation's own languages; no reference semantics."""
import gen
import progs
import roles as R
from core import probe, member, union, symdiff, tier, main_wrapper, Inconclusive
from gen import rep_bounds, normalize, show
from session import Session


def has_flag(ast):
    return any(it[0] == "flag" for it in gen.walk_items(ast))


def holes(g, path=(), under_rep=False):
    """Yields (path, item, under_repetition_with_upper_bound_above_one)."""
    for i, it in enumerate(g):
        if it[0] == "alt":
            yield path + (i,), it, under_rep
            for bi, b in enumerate(it[1]):
                yield from holes(b, path + (i, "b", bi), under_rep)
        elif it[0] == "rep":
            yield path + (i,), it, under_rep
            lo, hi = rep_bounds(it[2])
            yield from holes(it[1], path + (i, "r"), under_rep or hi is None or hi > 1)


def splice(g, path, replacement):
    """Replaces the item at `path` by the list of items `replacement`."""
    i = path[0]
    if len(path) == 1:
        return g[:i] + list(replacement) + g[i + 1:]
    it = g[i]
    if path[1] == "b":
        nb = list(it[1])
        nb[path[2]] = splice(nb[path[2]], path[3:], replacement)
        return g[:i] + [("alt", nb)] + g[i + 1:]
    return g[:i] + [("rep", splice(it[1], path[2:], replacement), it[2])] + g[i + 1:]


def get_concat(g, path):
    """The concatenation that directly contains the item at `path`, and the item's index."""
    if len(path) == 1:
        return g, path[0]
    it = g[path[0]]
    if path[1] == "b":
        return get_concat(it[1][path[2]], path[3:])
    return get_concat(it[1], path[2:])


def next_to_tree(ast, path):
    c, i = get_concat(ast, path)
    before = [x for x in c[:i] if x[0] != "flag"]
    after = [x for x in c[i + 1:] if x[0] != "flag"]
    return bool((before and before[-1][0] == "tree") or (after and after[0][0] == "tree"))


def concats(g, path=(), under=False):
    """Yields (path-prefix, concatenation) for every concatenation in the tree."""
    yield path, g
    for i, it in enumerate(g):
        if it[0] == "alt":
            for bi, b in enumerate(it[1]):
                yield from concats(b, path + (i, "b", bi))
        elif it[0] == "rep":
            yield from concats(it[1], path + (i, "r"))


def replace_concat(g, path, new):
    if not path:
        return new
    i = path[0]
    it = g[i]
    if path[1] == "b":
        nb = list(it[1])
        nb[path[2]] = replace_concat(nb[path[2]], path[3:], new)
        return g[:i] + [("alt", nb)] + g[i + 1:]
    return g[:i] + [("rep", replace_concat(it[1], path[2:], new), it[2])] + g[i + 1:]


def families(ast, rnd, max_wrap=4):
    """-> list of (law, lhs-ast, [rhs-asts])"""
    out = []
    for path, it, under in holes(ast):
        if has_flag([it]):
            continue
        if it[0] == "alt" and not under:
            out.append(("alt-union", ast, [splice(ast, path, b) for b in it[1]]))
        if it[0] == "rep":
            lo, hi = rep_bounds(it[2])
            body = it[1]
            if hi is not None and hi <= 3 and lo <= hi and not under:
                # writing the body zero times removes the token; next to a tree wildcard that would
                # change the tree wildcard's position (first/last/only), i.e. a different expression
                if not (lo == 0 and next_to_tree(ast, path)):
                    out.append(("rep-unroll", ast, [splice(ast, path, body * k) for k in range(lo, hi + 1)]))
            if hi is None and lo <= 3:
                out.append(("rep-open", ast, [splice(ast, path, body * lo + [("rep", body, None)])]))
    # wrapping: a slice e of some concatenation -> {e}, <e:1>, <e:1,1>
    cs = list(concats(ast))
    for _ in range(max_wrap):
        cpath, c = rnd.choice(cs)
        idx = [i for i, x in enumerate(c) if x[0] != "flag"]
        if not idx:
            continue
        a = rnd.choice(idx)
        b = rnd.choice([a, a, min(len(c), a + 2) - 1])
        e = c[a:b + 1]
        if has_flag(e) or not gen.nonflag(e):
            continue
        for wrap in (("alt", [e]), ("rep", e, (1,)), ("rep", e, (1, 1))):
            new = c[:a] + [wrap] + c[b + 1:]
            out.append(("wrap", ast, [replace_concat(ast, cpath, new)]))
    return out


def run():
    ses = Session("C07")
    rep = ses.rep
    base = progs.program_asts(max_random=1500 if tier() == "quick" else 20000,
                              small="quick" if tier() == "quick" else "thorough")
    fams = []
    for text, ast in base.items():
        if ast is None or not ast:
            continue
        for law, lhs, rhs in families(ast, ses.rnd):
            rhs = [normalize(x) for x in rhs]
            if any(not gen.nonflag(x) for x in rhs):
                continue
            fams.append((law, show(lhs), [show(x) for x in rhs], [lhs] + rhs))
    # de-duplicate and cap
    seen = set()
    uniq = []
    for f in fams:
        key = (f[0], f[1], tuple(f[2]))
        if key not in seen and f[1] not in f[2]:
            seen.add(key)
            uniq.append(f)
    cap = 6000 if tier() == "quick" else 80000
    if len(uniq) > cap:
        uniq = ses.rnd.sample(uniq, cap)
    ANY_BASE = ["", "a", "b", "*", "**", "a/**", "{a,b}", "/a", "<a:0,1>"]
    texts = sorted({t for f in uniq for t in [f[1]] + f[2]} | set(ANY_BASE))
    rows = dict(zip(texts, probe([{"op": "glob", "e": t} for t in texts])))

    def ok(t):
        r = rows.get(t)
        return r and r.get("ok") and "smt" in r

    tasks = []
    live = {}
    by_law = {}
    for k, (law, lhs, rhs, asts) in enumerate(uniq):
        if not (ok(lhs) and all(ok(t) for t in rhs)):
            continue
        live[k] = (law, lhs, rhs, asts)
        by_law[law] = by_law.get(law, 0) + 1
        tasks.append((k, member(symdiff(rows[lhs]["smt"], union(*[rows[t]["smt"] for t in rhs])))))
    # law D: any([p1..pn]) is the union of its patterns, however they are passed
    built = [t for t in texts if ok(t)]
    tuples = []
    for _ in range(500 if tier() == "quick" else 8000):
        n = ses.rnd.choice([1, 2, 2, 3])
        tuples.append(([ses.rnd.choice(built) for _ in range(n)],
                       ses.rnd.choice(["text", "glob", "owned", "nested", "nested_glob"])))
    # the empty pattern (matches exactly the empty path) next to other patterns, in every position
    # and mode; sibling nested combinators with several patterns each
    modes = ["text", "glob", "owned", "nested", "nested_glob", "nested_pairs"]
    for x in ANY_BASE[1:]:
        for m in modes:
            tuples += [(["", x], m), ([x, ""], m), (["", "", x], m), ([x, "", "b"], m)]
    for _ in range(100 if tier() == "quick" else 2000):
        tuples.append(([ses.rnd.choice(built) for _ in range(ses.rnd.choice([3, 4, 5]))], "nested_pairs"))
    tuples = [(p, m) for p, m in tuples if all(ok(t) for t in p)]
    anyrows = probe([{"op": "any", "pats": p, "mode": m} for p, m in tuples])
    anylive = {}
    for k, ((pats, mode), row) in enumerate(zip(tuples, anyrows)):
        if row and row.get("ok") and "smt" in row:
            key = ("any", k)
            anylive[key] = (pats, mode)
            by_law["any-union"] = by_law.get("any-union", 0) + 1
            tasks.append((key, member(symdiff(row["smt"], union(*[rows[t]["smt"] for t in pats])))))
    res = ses.solve(tasks)
    wit = []
    for key, (status, w, _) in res.items():
        if status in ("unknown", "error"):
            rep.undecided_add({"family": live.get(key, anylive.get(key)) and str(live.get(key, anylive.get(key))[:3]), "why": w})
        elif status == "sat":
            wit.append((key, w))
    # replay: real is_match of every member on the witness
    items = []
    for key, w in wit:
        if key in live:
            law, lhs, rhs, _ = live[key]
            items += [({"glob": lhs}, w)] + [({"glob": t}, w) for t in rhs]
        else:
            pats, mode = anylive[key]
            items += [({"any": pats, "mode": mode}, w)] + [({"glob": t}, w) for t in pats]
    real = ses.replay_match(items)
    pos = 0
    for key, w in wit:
        if key in live:
            law, lhs, rhs, asts = live[key]
            n = 1 + len(rhs)
        else:
            pats, mode = anylive[key]
            law, lhs, rhs, asts = "any-union", "any(%s;%s)" % (",".join(pats), mode), pats, [gen.parse(p) for p in pats]
            n = 1 + len(pats)
        rs = real[pos:pos + n]
        pos += n
        left = rs[0]["m"]
        right = any(r["m"] for r in rs[1:])
        if left == right:
            raise Inconclusive("witness %r for family %r does not reproduce" % (w, (law, lhs, rhs)))
        roles = {"law-" + law}
        # attributed to the known superposition finding only if the edge tree wildcards of the two
        # sides have different (position, superposition) signatures
        if law == "any-union":
            lhs_asts = [[("alt", [a for a in asts if a is not None])]] if all(a is not None for a in asts) else [None]
            rhs_asts = asts
        else:
            lhs_asts, rhs_asts = asts[:1], asts[1:]
        if R.superposition_explains(lhs_asts, rhs_asts):
            roles.add("tree-at-branch-edge")
        rep.candidate(roles, {"short": {"law": law, "lhs": lhs, "rhs": rhs, "path": w,
                                        "lhs_matches": left, "some_rhs_matches": right}})
    for k in list(live)[:800:80]:
        law, lhs, rhs, _ = live[k]
        rep.sample({"law": law, "lhs": lhs, "rhs": rhs, "obligation": "L(lhs) = union of L(rhs_i), for all paths"})
    rep.assumptions += [
        "a law is checked only when every member builds; holes containing flags are skipped (flags thread textually through branches)",
        "alt-union and rep-unroll holes do not lie under a repetition with upper bound above one (different iterations may pick different branches); wrap, rep-open and any-union hold everywhere",
    ]
    return ses.finish(len(live) + len(anylive), {
        "families_generated": len(uniq), "families_all_building": len(live), "by_law": by_law,
        "any_families": len(anylive),
        "functions_encoded": ["token::parse", "rule::check", "encode::encode (positions, superposition)",
                               "crate::any", "Checked::any"]})


if __name__ == "__main__":
    main_wrapper(run)
