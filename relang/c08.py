"""C08 -- partitioning preserves meaning: prefix joined with postfix is the glob (engine A)."""
import progs
import roles as R
from core import (probe, member, inter, diff, cat, union, symdiff, lit, SEP, EPS, esc, tier,
                  main_wrapper, Inconclusive)
from session import Session


def normalise_prefix(prefix):
    """-> (canonical text, representable) ; representable False if it has '.'/'..' components."""
    absolute = prefix.startswith("/")
    comps = [c for c in prefix.split("/") if c != ""]
    if any(c in (".", "..") for c in comps):
        return None, False
    return ("/" if absolute else "") + "/".join(comps), True


def join_lang(pn, post_smt):
    """Canonical paths whose leading components are the prefix and whose non-empty remainder
    matches the postfix."""
    if post_smt is None:
        return "re.none"   # no postfix: only the prefix itself (edge clause)
    if pn == "":
        return inter(post_smt, "CANON")
    if pn == "/":
        return cat(SEP, inter(post_smt, "CANONREL"))
    return cat(lit(pn), SEP, inter(post_smt, "CANONREL"))


def run():
    ses = Session("C08")
    rep = ses.rep
    recs, stats, _ = progs.load(routes=True)
    tasks = []
    info = {}
    side_checked = 0
    for i, r in enumerate(recs):
        row = r["row"]
        part = row["part"]
        post = part["post"]
        pn, ok = normalise_prefix(part["prefix"])
        text = r["text"]
        ast_roles = R.ast_roles(r["ast"]) if r["ast_ok"] else set()
        # ---- concrete side conditions (per program) ----
        if post is not None:
            side_checked += 1
            ptext = post["display"]
            problems = []
            if post["root"] != "Never":
                problems.append("postfix-rooted")
            if post["repart"]["prefix"] != "" or post["repart"]["text"] != ptext:
                problems.append("repartition-not-idempotent")
            if not text.endswith(ptext):
                problems.append("postfix-not-a-suffix")
            rebuilt = post["rebuilt"]
            if "error" in rebuilt:
                problems.append("postfix-text-does-not-rebuild")
            else:
                if rebuilt["re"] != post["re"]:
                    problems.append("rebuilt-postfix-differs")
                if rebuilt["caps"] != post["caps"]:
                    problems.append("postfix-capture-spans-differ")
            for p in problems:
                rs = {p}
                ast = r["ast"] if r["ast_ok"] else None
                if p in ("postfix-rooted", "repartition-not-idempotent") and R.root_in_nested_branch(ast):
                    rs.add("root-in-nested-branch")
                if p in ("postfix-not-a-suffix", "postfix-text-does-not-rebuild", "rebuilt-postfix-differs",
                         "postfix-capture-spans-differ") and (
                             R.flag_at_partition_cut(ast) or (ast is None and "(?" in text)):
                    rs.add("flag-at-partition-cut")
                rep.candidate(rs, {"short": {"program": text, "prefix": part["prefix"],
                                                          "postfix": ptext, "problem": p,
                                                          "postfix_root": post["root"]}})
        # ---- partitioning an owned glob gives the same result (text, program, spans) ----
        po = (row.get("routes") or {}).get("part_owned")
        if po is not None:
            o_post = po.get("post")
            same = (po["prefix"] == part["prefix"] and (o_post is None) == (post is None) and
                    (post is None or all(o_post.get(k) == post.get(k) for k in ("display", "re", "caps", "root"))))
            if not same:
                rep.candidate({"owned-partition-differs"},
                              {"short": {"program": text, "borrowed": [part["prefix"], post and post["display"]],
                                         "owned": [po["prefix"], o_post and o_post.get("display")]}})
        # ---- main clause ----
        if not ok:
            rhs = "re.none"
            pn = None
        else:
            rhs = join_lang(pn, post["smt"] if post else None)
        lhs = inter(row["smt"], "CANON")
        if pn is not None and pn != "":
            lhs = diff(lhs, lit(pn))        # the empty-remainder edge is a separate clause
        info[i] = (r, pn, ast_roles)
        tasks.append((("main", i), member(symdiff(lhs, rhs))))
        # ---- edge clause: the prefix itself (empty remainder) ----
        if pn is not None:
            post_smt = post["smt"] if post else EPS
            tasks.append((("edgeL", i), '(assert (= s "%s"))\n' % esc(pn) + member(row["smt"])))
            tasks.append((("edgeR", i), '(assert (= s ""))\n' + member(post_smt)))
    res = ses.solve(tasks)
    wit = []
    edge = {}
    for key, (status, w, _) in res.items():
        kind, i = key
        if status in ("unknown", "error"):
            rep.undecided_add({"program": info[i][0]["text"], "clause": kind, "why": w})
        elif kind == "main" and status == "sat":
            wit.append((i, w))
        elif kind in ("edgeL", "edgeR"):
            edge.setdefault(i, {})[kind] = status == "sat"
    # replay main-clause witnesses: real is_match on the original, real strip + postfix match
    items = []
    for i, w in wit:
        r, pn, _ = info[i]
        items.append(({"glob": r["text"]}, w))
    real = ses.replay_match(items)
    post_items = []
    for (i, w), rm in zip(wit, real):
        r, pn, ast_roles = info[i]
        post = r["row"]["part"]["post"]
        # remainder as Path::strip_prefix would give it
        rem = None
        if pn is not None:
            if pn == "":
                rem = w
            elif pn == "/" and w.startswith("/"):
                rem = w[1:]
            elif w == pn:
                rem = ""
            elif w.startswith(pn + "/"):
                rem = w[len(pn) + 1:]
        post_items.append((i, w, rm["m"], rem))
    todo = [(k, ({"glob": info[i][0]["text"], "route": "part_post"}, rem))
            for k, (i, w, m, rem) in enumerate(post_items)
            if rem is not None and info[i][0]["row"]["part"]["post"] is not None]
    got = ses.replay_match([t for _, t in todo])
    rhs_real = {k: g["m"] for (k, _), g in zip(todo, got)}
    # known-finding attribution by term patch: re-ask the main clause with the rooted leading tree
    # wildcard re-encoded to match whole components only
    def patched_query(i, patched_smt):
        r, pn, _ = info[i]
        post = r["row"]["part"]["post"]
        rhs = join_lang(pn, post["smt"] if post else None) if pn is not None else "re.none"
        lhs = inter(patched_smt, "CANON")
        if pn is not None and pn != "":
            lhs = diff(lhs, lit(pn))
        return member(symdiff(lhs, rhs))
    explained = ses.patched_unsat([(i, info[i][0]["row"]["re"]) for i, _ in wit], patched_query)
    for k, (i, w, m, rem) in enumerate(post_items):
        r, pn, ast_roles = info[i]
        ast = r["ast"] if r["ast_ok"] else None
        post = r["row"]["part"]["post"]
        if rem is None:
            right = False
        elif post is None:
            right = rem == ""
        else:
            right = rhs_real[k]
        if m == right:
            raise Inconclusive("witness %r for %r does not reproduce (both sides %s)" % (w, r["text"], m))
        if i in ses.patch_undecided:
            rep.undecided_add({"program": r["text"], "clause": "main", "why": "patched obligation (known-finding attribution) undecided"})
            continue
        roles = {"matches-but-prefix-plus-postfix-does-not" if m else "prefix-plus-postfix-matches-but-glob-does-not"}
        if i in explained:
            roles.add("rooted-leading-tree")
        if R.root_in_nested_branch(ast):
            roles.add("root-in-nested-branch")
        if R.separator_class(ast):
            roles.add("separator-class")
        # the postfix is recompiled on its own: a branch that was in the middle of the glob may be
        # first in the postfix, which changes the (position, superposition) signature of tree
        # wildcards at its edges
        if post and ast is not None:
            import gen as _gen
            past = _gen.parse(post["display"])
            if past is not None and R.superposition_explains([ast], [past]):
                roles.add("tree-at-branch-edge")
        rep.candidate(roles, {"short": {"program": r["text"], "prefix": r["row"]["part"]["prefix"],
                                        "postfix": post["display"] if post else None, "path": w,
                                        "glob_matches": m, "prefix_and_postfix_match": right}})
    # edge clause
    edge_bad = 0
    for i, e in edge.items():
        if "edgeL" in e and "edgeR" in e and e["edgeL"] != e["edgeR"]:
            r, pn, ast_roles = info[i]
            post = r["row"]["part"]["post"]
            real = ses.replay_match([({"glob": r["text"]}, pn)] +
                                    ([({"glob": r["text"], "route": "part_post"}, "")] if post else []))
            left = real[0]["m"]
            right = real[1]["m"] if post else True
            if left == right:
                raise Inconclusive("edge clause for %r does not reproduce" % r["text"])
            edge_bad += 1
            ast = r["ast"] if r["ast_ok"] else None
            roles = {"empty-remainder-edge"}
            if R.root_in_nested_branch(ast):
                roles.add("root-in-nested-branch")
            if R.separator_class(ast):
                roles.add("separator-class")
            elif not left and right and post is None and r["row"]["part"]["prefix"].endswith("/") and pn != "/":
                roles.add("trailing-separator-invariant")
            elif not left and right and post is not None:
                roles.add("postfix-matches-empty-remainder")
            rep.candidate(roles, {"short": {"program": r["text"], "prefix": r["row"]["part"]["prefix"],
                                            "postfix": post["display"] if post else None,
                                            "path": pn, "glob_matches_prefix": left,
                                            "postfix_matches_empty": right}})
    for i in list(info)[:600:60]:
        r, pn, _ = info[i]
        post = r["row"]["part"]["post"]
        rep.sample({"program": r["text"], "prefix": r["row"]["part"]["prefix"],
                    "postfix": post["display"] if post else None,
                    "obligation": "forall canonical s != prefix: s in L(glob) <=> s = prefix '/' r, r in L(postfix)"})
    rep.assumptions += [
        "canonical paths: components non-empty, no '/', not '.' or '..'; relative or rooted",
        "the remainder is what Path::strip_prefix(prefix) returns (the whole path for the empty prefix)",
        "the empty-remainder edge (candidate = prefix directory itself) is a separate clause: prefix in L(glob) <=> '' in L(postfix)",
    ]
    return ses.finish(len(info), {"partition_side_conditions_checked": side_checked,
                                  "edge_clause_disagreements": edge_bad, "generated": stats,
                                  "functions_encoded": ["Tokenized::partition", "Token::invariant_text_prefix",
                                                         "Token::pop_prefix_tokens_with", "encode::compile"]})


if __name__ == "__main__":
    main_wrapper(run)
