"""C05 -- building and querying a glob is total (engine B, kernel level) + panics met by the sweep."""
import os
import sys

sys.path.insert(0, os.path.join(os.path.dirname(os.path.abspath(__file__)), "..", "kanidrv"))
import progs
import replays
import runprop
from core import Report, build_probe, main_wrapper, tier


def run():
    rep = Report("C05", "model_checking")
    build_probe()
    cov, inc = runprop.run_kani_part("C05", rep)
    # panics met while building the program set of engine A (enumeration, labelled as such)
    recs, stats, panics = progs.load()
    seen = set()
    for p in panics:
        role = replays.panic_role(p.get("msg"), p["e"])
        sig = (role, p.get("loc"))
        if sig in seen:
            continue
        seen.add(sig)
        rep.candidate({"glob-new-panics", role},
                      {"short": {"expression": p["e"], "panic": p.get("msg"), "location": p.get("loc"),
                                 "scenario": "Glob::new(expression) in a subprocess (program sweep)"}})
    cov["samples"] = cov["harnesses"][:10]
    cov["sweep"] = {"note": "enumeration of concrete expressions, not a solver decision", "generated": stats,
                    "panicking_expressions": len(panics)}
    rep.assumptions += [
        "kernel level: absence of panics in the range algebra (sums, unions, translations, bound conversions for all operands below 2^31 / full width as listed; products with the repetition range from a constant table); parser totality, stack depth and the regex back end are outside the claim",
        "the full-width sum harness is expected to fail (overflow panics near 2^64 are a known finding); it is attributed only after Glob::new reproduces the same panic message",
    ]
    return rep.finish(cov, inconclusive=inc)


if __name__ == "__main__":
    main_wrapper(run)
