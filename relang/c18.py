"""C18 -- escaping turns any text into a glob that matches exactly that text.
Engine B (Kani): the meta-character predicates for every char, escape on short strings of arbitrary
chars. Engine A: escape -> real Glob::new -> text() and the singleton-language query."""
import itertools
import os
import sys

from core import probe, member, esc, tier, main_wrapper, Inconclusive
from session import Session

sys.path.insert(0, os.path.join(os.path.dirname(os.path.abspath(__file__)), "..", "kanidrv"))

META = "?*$:<>()[]{},"
ALPHABET = list(META) + ["/", "-", "!", "a", "A", ".", " ", "i", "金", "\n", "é"]
FRAGMENTS = ["(?i)", "(?-i)", "[a]", "[!a]", "{a,b}", "<a:1>", "<a:1,2>", "**", "/**/", "a/b", "..",
             "[a-z]", "\\", "$", "a,b", "x:y", "(?", "*.rs", "{", "}", "<", ">", "[", "]"]


def strings(rnd):
    n = 3 if tier() == "quick" else 4
    out = []
    for k in range(0, n + 1):
        if k == n and tier() != "quick":
            # the longest length is sampled in the thorough tier (full product is 25^4)
            prod = [tuple(rnd.choice(ALPHABET) for _ in range(k)) for _ in range(60000)]
        else:
            prod = itertools.product(ALPHABET, repeat=k)
        for t in prod:
            out.append("".join(t))
    for _ in range(1500 if tier() == "quick" else 20000):
        k = rnd.randint(2, 5)
        out.append("".join(rnd.choice(FRAGMENTS + ALPHABET) for _ in range(k)))
    seen = set()
    res = []
    for s in out:
        if "\\" in s or "//" in s or s in seen:
            continue
        seen.add(s)
        res.append(s)
    return res


def run():
    ses = Session("C18")
    rep = ses.rep
    strs = strings(ses.rnd)
    # texts near the invariant size limit (0x10000 bytes), dense in meta-characters or not
    strs += ["[0]," * 10000, "a" * 65000, "*" * 32000, "ab/" * 20000 + "?", "{}" * 15000 + "\u91d1" * 5000]
    long_checked = 0
    rows = probe([{"op": "esc", "raw": s} for s in strs])
    tasks = []
    live = {}
    for k, (s, row) in enumerate(zip(strs, rows)):
        if not row or row.get("panic") or row.get("abort") or not row.get("ok"):
            rep.candidate({"escaped-text-does-not-build"},
                          {"short": {"text": s, "escaped": row and row.get("escaped"),
                                     "error": row and (row.get("err") or row.get("msg"))}})
            continue
        expected = "".join(("\\" + c) if c in META else c for c in s)
        if row["escaped"] != expected:
            rep.candidate({"escape-output-wrong"}, {"short": {"text": s, "escaped": row["escaped"],
                                                              "expected": expected}})
        if row["borrowed"] != (not any(c in META for c in s)):
            rep.candidate({"escape-borrow-wrong"}, {"short": {"text": s, "borrowed": row["borrowed"]}})
        if row["text"] != s:
            rep.candidate({"escaped-glob-text-not-invariant"},
                          {"short": {"text": s, "escaped": row["escaped"], "glob_text": row["text"]}})
        if not row["is_match_raw"]:
            rep.candidate({"escaped-glob-does-not-match-text"},
                          {"short": {"text": s, "escaped": row["escaped"], "pattern": row["re"]}})
        if len(s) > 2000:
            # long texts (up to the size limit): the concrete clauses above only -- builds, text()
            # is the text, the text is matched; the singleton query on a 40 000 character literal is
            # not worth its solver time
            long_checked += 1
            continue
        if "smt" not in row:
            rep.undecided_add({"text": s, "why": row.get("smt_error")})
            continue
        live[k] = (s, row)
        tasks.append((k, '(assert (not (= s "%s")))\n' % esc(s) + member(row["smt"])))
    res = ses.solve(tasks)
    wit = [(k, v[1]) for k, v in res.items() if v[0] == "sat"]
    for k, v in res.items():
        if v[0] in ("unknown", "error"):
            rep.undecided_add({"text": live[k][0], "why": v[1]})
    real = ses.replay_match([({"glob": live[k][1]["escaped"]}, w) for k, w in wit])
    for (k, w), r in zip(wit, real):
        if not r["m"]:
            raise Inconclusive("witness %r for escaped %r does not reproduce" % (w, live[k][0]))
        rep.candidate({"escaped-glob-matches-other-path"},
                      {"short": {"text": live[k][0], "escaped": live[k][1]["escaped"], "also_matches": w}})
    # meta predicates on the alphabet (concrete) -- the for-all-chars statement is the Kani harness
    mrow = probe([{"op": "meta", "chars": "".join(ALPHABET)}])[0]
    for c, m, cm in zip(ALPHABET, mrow["meta"], mrow["contextual"]):
        if m != (c in META) or cm != (c == "-"):
            rep.candidate({"meta-predicate-wrong"}, {"short": {"char": c, "is_meta": m, "is_contextual": cm}})
    for k in list(live)[:5000:500]:
        rep.sample({"text": live[k][0], "escaped": live[k][1]["escaped"], "compiled": live[k][1]["re"],
                    "obligation": "forall x. x in L(Glob(escape(text))) => x == text; text() == Invariant(text)"})
    import runprop
    kcov, kinc = runprop.run_kani_part("C18", rep)
    rep.assumptions += [
        "strings: every string of at most %d characters over %d characters (all 13 meta-characters, '/', '-', '!', flag- and class-like letters, space, CJK, U+000A) plus seeded concatenations of pattern-like fragments; without backslash and without '//'" % (3 if tier() == "quick" else 4, len(ALPHABET)),
        "that the parser's stop set equals the meta set for characters outside this alphabet is outside the claim (parser not symbolically executable); the predicates themselves are decided for every char (Kani)",
    ]
    return ses.finish(len(live), {"strings": len(strs), "exhaustive_up_to_length": 3 if tier() == "quick" else 3,
                                  "long_texts_checked_concretely": long_checked,
                                  "kani": kcov,
                                  "functions_encoded": ["escape", "is_meta_character", "token::parse (concretely)",
                                                         "encode::compile", "Token::variance::<Text>"]},
                      inconclusive=kinc)


if __name__ == "__main__":
    main_wrapper(run)
