"""C03 -- negated walks discard exactly the entries that match the negation.
Engine A: the two partition programs of the real `not` (read through the hook) against the public
`any`/`Glob` program; engine B: the verdict step of the real FilterAny::residue (Kani)."""
import os
import sys

import gen
import progs
import roles as R
from core import (probe, member, inter, diff, cat, union, symdiff, SEP, EPS, tier, main_wrapper,
                  Inconclusive)
from session import Session

sys.path.insert(0, os.path.join(os.path.dirname(os.path.abspath(__file__)), "..", "kanidrv"))


def alternatives(ast):
    """What `into_alternatives` splits: a pattern that is a single top-level alternation."""
    if ast is None:
        return [None]
    items = gen.nonflag(ast)
    if len(items) == 1 and items[0][0] == "alt":
        out = []
        for b in items[0][1]:
            out += alternatives(b)
        return out
    return [ast]


def below(E):
    """Relative canonical paths strictly beneath a relative canonical path (or the empty path, i.e.
    the base directory itself) matched by E."""
    return union(cat(inter(E, "CANONREL"), SEP, "CANONREL"), cat(inter(E, EPS), "CANONREL"))


def fs_safe(path):
    return all(0x20 <= ord(c) < 0x7f for c in path) and len(path) < 200


def run():
    ses = Session("C03")
    rep = ses.rep
    recs, stats, _ = progs.load()
    asts = {r["text"]: (r["ast"] if r["ast_ok"] else None) for r in recs}
    texts = [r["text"] for r in recs]
    exh = [r["text"] for r in recs if r["row"]["exh"] == "Always"]
    negs = []
    n_single = 700 if tier() == "quick" else 100000
    singles = texts if len(texts) <= n_single else ses.rnd.sample(texts, n_single)
    for t in singles:
        negs.append(([t], "single"))
    for t in ses.rnd.sample(texts, min(len(texts), 150 if tier() == "quick" else 3000)):
        negs.append(([t], "glob"))
    for _ in range(500 if tier() == "quick" else 12000):
        k = ses.rnd.choice([2, 2, 3])
        pats = [ses.rnd.choice(exh) if exh and ses.rnd.random() < 0.5 else ses.rnd.choice(texts)
                for _ in range(k)]
        negs.append((pats, ses.rnd.choice(["any_text", "any_glob", "any_nested", "any_owned"])))
    # sibling nested combinators / nested alternations with several branches each (the negation is
    # flattened into its alternatives before it is partitioned)
    simple = [t for t in texts if len(t) <= 8 and "{" not in t and "<" not in t and "," not in t and t]
    pool = (exh[:] if exh else []) + simple
    for _ in range(200 if tier() == "quick" else 4000):
        pats = [ses.rnd.choice(pool) for _ in range(ses.rnd.choice([3, 4, 4, 5]))]
        negs.append((pats, "any_nested_pairs"))
        a, b, c, d = (ses.rnd.choice(simple) for _ in range(4))
        negs.append((["{{%s,%s},{%s,%s}}" % (a, b, c, d)], ses.rnd.choice(["single", "glob"])))
        negs.append((["{%s,{%s,%s},{%s,{%s,%s}}}" % (a, b, c, d, a, c)], "single"))
    for pats in (["a/**", "*.rs", "*.pdf", "*.tex"], ["x", "y/**", "z", "**/w"], ["a", "b", "c", "d", "e"]):
        negs.append((pats, "any_nested_pairs"))
        negs.append((["{{%s,%s},{%s,%s}}" % tuple(pats[:4])], "single"))
    negs.append(([""], "single"))
    negs.append((["", "a/**"], "any_text"))
    rows = probe([{"op": "not", "pats": p, "mode": m} for p, m in negs])
    tasks = []
    live = {}
    with_exhaustive = 0
    for k, ((pats, mode), row) in enumerate(zip(negs, rows)):
        if not row or not row.get("ok"):
            continue
        ex, nex = row["parts"]["ex"], row["parts"]["nex"]
        if any(x is not None and "smt" not in x for x in (ex, nex)) or "smt" not in row["ref"]:
            continue
        E = ex["smt"] if ex else "re.none"
        N = nex["smt"] if nex else "re.none"
        live[k] = (pats, mode, row, E, N)
        tasks.append((("eq", k), member(symdiff(union(E, N), row["ref"]["smt"]))))
        if ex:
            with_exhaustive += 1
            tasks.append((("tree", k), member(diff(below(E), union(E, N)))))
    res = ses.solve(tasks)
    wit = []
    for key, (status, w, _) in res.items():
        if status in ("unknown", "error"):
            rep.undecided_add({"negation": live[key[1]][:2], "clause": key[0], "why": w})
        elif status == "sat":
            wit.append((key, w))
    fs_replayed = 0
    deferred = []
    for (kind, k), w in wit:
        pats, mode, row, E, N = live[k]
        ex, nex = row["parts"]["ex"], row["parts"]["nex"]
        label = "not(%s;%s)" % (",".join(pats), mode)

        def real(pattern, paths):
            if pattern is None:
                return [False] * len(paths)
            r = probe([{"op": "match", "target": {"re": pattern["re"]}, "paths": paths}])[0]
            return [x["m"] for x in r["results"]]
        ses.replayed += 1
        if kind == "eq":
            spec = {"glob": pats[0]} if mode in ("single", "glob") else {"any": pats, "mode": mode[4:]}
            ref_m = ses.replay_match([(spec, w)])[0]["m"]
            part_m = real(ex, [w])[0] or real(nex, [w])[0]
            if ref_m == part_m:
                raise Inconclusive("witness %r for %s (partition union) does not reproduce" % (w, label))
            rs = {"partition-union-differs-from-pattern"}
            alts = []
            for p in pats:
                alts += alternatives(asts.get(p))
            lhs = [[("alt", alts)]] if all(a is not None for a in alts) else [None]
            if R.superposition_explains(lhs, [asts.get(p) for p in pats]):
                rs.add("tree-at-branch-edge")
            rep.candidate(rs,
                          {"short": {"negation": label, "path": w, "pattern_matches": ref_m,
                                     "some_partition_matches": part_m}})
            continue
        # tree clause: find the matched proper ancestor
        anc = [""] + [w[:i] for i, c in enumerate(w) if c == "/"]
        em = real(ex, anc)
        parents = [a for a, m in zip(anc, em) if m]
        wm = real(ex, [w])[0] or real(nex, [w])[0]
        if wm or not parents:
            raise Inconclusive("witness %r for %s (tree clause) does not reproduce" % (w, label))
        roles = {"tree-discard-loses-unmatched-descendant"}
        member_asts = []
        for p in pats:
            member_asts += alternatives(asts.get(p))
        # attributed to the known is_exhaustive finding only if an alternative that matches the
        # discarded directory really reports Always and belongs to a family where that is known
        # to be wrong; an alternative that does not report Always has no business in the
        # exhaustive partition
        texts_alt = [gen.show(a) for a in member_asts if a is not None]
        if texts_alt and len(texts_alt) == len(member_asts):
            arows = probe([{"op": "glob", "e": t} for t in texts_alt])
            # matched the way the filter compiles it: as a branch of an `any`
            mrows = probe([{"op": "match", "target": {"any": [t], "mode": "text"}, "paths": [parents[-1]]}
                           for t in texts_alt])
            for a, ar, mr in zip(member_asts, arows, mrows):
                if ar.get("ok") and mr.get("ok") and mr["results"][0]["m"] and ar["exh"] == "Always" \
                        and R.exhaustive_heuristic_family(a):
                    roles.add("not-plain-tree-tail")
        elif any(R.exhaustive_heuristic_family(a) for a in member_asts):
            roles.add("not-plain-tree-tail")
        if parents[-1] == "":
            roles.add("exhaustive-matches-empty-path")
        record = {"negation": label, "discarded_as_tree": parents[-1], "unmatched_descendant": w}
        # end-to-end replay on a real directory when the names are usable as file names
        if fs_safe(w) and mode in ("single", "any_text", "any_glob", "any_owned") and parents[-1] != "":
            wr = probe([{"op": "walk", "tree": ["b/" + w], "base": "b", "glob": None,
                         "stack": [{"not": {"pats": pats, "mode": "single" if mode == "single" else "any_text"}}]}])[0]
            if wr.get("ok"):
                fs_replayed += 1
                got = set(i["relative"] for i in wr["items"] if not i.get("error"))
                record["real_walk_yields_descendant"] = w in got
                if w in got:
                    # the languages say the directory is discarded as a tree, the real walk still
                    # yields the descendant: not this clause's violation (the verdict step below and
                    # C13 decide whether the tree verdict was issued); the run is inconclusive unless
                    # a violation is reported besides
                    deferred.append("real walk yields %r under not(%s): tree clause witness does not reproduce end to end" % (w, label))
                    continue
        rep.candidate(roles, {"short": record})
    for k in list(live)[:900:90]:
        pats, mode, row, _, _ = live[k]
        rep.sample({"negation": pats, "mode": mode,
                    "exhaustive_partition": row["parts"]["ex"] and row["parts"]["ex"]["re"][:120],
                    "nonexhaustive_partition": row["parts"]["nex"] and row["parts"]["nex"]["re"][:120],
                    "obligations": ["L(E) ∪ L(N) = L(pattern)", "below(L(E)) ⊆ L(E) ∪ L(N)"]})
    # engine B: verdict step of the real FilterAny::residue
    import runprop
    kcov, kinc = runprop.run_kani_part("C03", rep)
    rep.assumptions += [
        "root-relative paths of entries are relative canonical paths (or the empty path for the base itself); rooted-glob walks, whose relative segment is the whole rooted path, are outside this clause",
        "the plumbing from a Tree/File verdict to cancellation is C13/C16's; here: (A) the languages of the two partition programs, (B) that the verdict is the stated function of their answers on exactly the root-relative path",
    ]
    return ses.finish(len(live), {
        "negations_generated": len(negs), "negations_with_exhaustive_partition": with_exhaustive,
        "fs_replayed": fs_replayed, "generated": stats, "kani": kcov,
        "functions_encoded": ["FileIterator::not", "FilterAny::any", "FilterAnyProgram::try_from_partitions",
                               "Token::is_exhaustive", "Checked::into_alternatives", "crate::any",
                               "FilterAny::residue (Kani)", "FilterAnyProgram::residue (Kani)"]},
        inconclusive=kinc or ("; ".join(deferred[:3]) if deferred else None))


if __name__ == "__main__":
    main_wrapper(run)
