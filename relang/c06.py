"""C06 -- rule checking: **acceptance soundness of the language-visible rules** (engine A).

The rule checker and the parser cannot be executed symbolically (DESIGN 2), so the half of the
statement that says *which expressions are rejected* stays outside the claim. The other half -- every
expression that builds satisfies the documented rules -- has a language-visible form that the solver
decides on the program the real code compiled:

  O1  no two component boundaries become adjacent, whichever branches are chosen and however often
      repetition bodies are repeated:  L'(g) contains no string with two adjacent separators;
  O2  every built glob is always rooted or never rooted, and no branch / optional repetition can root
      it:  has_root() is Always or Never, and L'(g) contains only rooted, respectively only unrooted
      strings.

L'(g) is the compiled pattern with every tree wildcard's `.*` replaced by a non-empty run of complete
components (and, for O2, without the optional leading separator an unrooted leading tree wildcard
tolerates), `*` / `$` matching at least one character and every repetition iterating at least once:
tokens other than boundaries then match non-empty separator-free text, so a string of L'(g) with `//`
exhibits an unfolding with two adjacent boundaries, for all unfoldings at once. L'(g) is a subset of
L(g), so every witness is a path the real glob really matches (replayed)."""
import os
import re

import gen
import progs
import roles as R
from core import VERIF, probe, member, inter, diff, cat, lit, SEP, tier, main_wrapper, Inconclusive
from session import Session

COMPS = "(?:[^/]+(?:[/][^/]+)*)"
_TREE = re.compile(r"(?<!\\)\.\*")
_OPTQ = re.compile(r"\)\{0,")
_ANYQ = re.compile(r"\)\{\d+,\d*\}")
_NEGCLASS = re.compile(r"(\(\?-i:\[\^(?:\\.|[^\]\\])*)\]\)")
_LEAD = re.compile(r"\(\?:\[/\]\?\|((?:\((?:\?:)?)?)" + re.escape(COMPS) + r"\[/\]")

ZOM = "\\x{1}"
NOT_WF = cat("re.all", lit("//"), "re.all")
ZOMZOM = cat("re.all", lit("\u0001\u0001"), "re.all")
UNROOTED = diff("ANY", cat(SEP, "ANY"))
ROOTED = cat(SEP, "ANY")


def patch(pattern):
    """-> (pattern for O1, pattern for O2). Tokens that are not boundaries are made non-empty
    (`*`, `$` match at least one character; every repetition iterates at least once -- the rules speak
    of bodies repeated at least once), so that an empty component cannot pass for two adjacent
    boundaries; tree wildcards range over non-empty runs of complete components."""
    p = pattern.replace("[^/]*?", "[^/]+?").replace("[^/]*", "[^/]+")
    p = _OPTQ.sub("){1,", p)
    p1 = _TREE.sub(COMPS, p)
    p2 = _LEAD.sub(lambda m: "(?:|" + m.group(1) + COMPS + "[/]", p1)
    # O3: every zero-or-more wildcard becomes the marker U+0001 (no generated expression contains
    # it), so that two of them adjacent in some unfolding show as two adjacent markers
    p3 = pattern.replace("[^/]*?", ZOM).replace("[^/]*", ZOM)
    # the statement quantifies this rule over the choice of branches only: repetition bodies are
    # taken once; a tree wildcard is taken with its separator (it is not a zero-or-more wildcard
    # that could vanish between two others)
    p3 = _TREE.sub(COMPS, _ANYQ.sub("){1}", p3)).replace("[/]?", "[/]")
    # no other token may produce the marker: `?`, whole components and positive classes are built on
    # `[^/]`, negated classes end in the separator exclusion
    p3 = p3.replace("[^/]", "[^/\\x{1}]")
    p3 = _NEGCLASS.sub(lambda m: m.group(1) + "\\x{1}])", p3)
    return p1, p2, p3


def nested_edge(text, ast):
    """The syntactic class of KF-rule-nested-branch-edges (which inputs of the deterministic part of
    the program set are known is decided by the input list, see core.Report.candidate)."""
    if ast is None:
        alt = gen.parse(text)
        if alt is not None and gen.show(alt) == text:
            ast = alt
    return ast is not None and R.boundary_at_nested_branch_edge(ast)


def nested_zom(text, ast):
    """Same weakness, zero-or-more variant: a branch nested at least two levels deep begins or ends
    with a zero-or-more wildcard."""
    if ast is None:
        alt = gen.parse(text)
        if alt is not None and gen.show(alt) == text:
            ast = alt

    def edge(g):
        items = gen.nonflag(g)
        return bool(items) and (items[0][0] in ("zom", "lazy") or items[-1][0] in ("zom", "lazy"))

    def rec(g, depth):
        for it in gen.nonflag(g):
            subs = it[1] if it[0] == "alt" else ([it[1]] if it[0] == "rep" else [])
            for b in subs:
                if (depth + 1 >= 2 and edge(b)) or rec(b, depth + 1):
                    return True
        return False
    return ast is not None and rec(ast, 0)


def run():
    ses = Session("C06")
    rep = ses.rep
    # thorough tier: the small enumerations of the quick tier, four times as many random derivations
    # (the full thorough program set times three queries took over an hour)
    recs, stats, _ = progs.load(small="quick", max_random=2000 if tier() == "quick" else 8000)
    have = {r["text"] for r in recs}
    # the rule family: expressions most of which must be rejected
    fam = {}
    for g in gen.enum_rule_family():
        t = gen.show(g)
        if t not in have and t not in fam:
            fam[t] = g
    ftexts = list(fam)
    rep.extra_deterministic = set(fam)
    frows = probe([{"op": "glob", "e": t} for t in ftexts])
    fam_built = 0
    fam_rejected = 0
    targets = [(r["text"], r["row"], r["ast"] if r["ast_ok"] else None) for r in recs]
    for t, row in zip(ftexts, frows):
        if row is None or row.get("panic") or row.get("abort"):
            continue
        if not row.get("ok"):
            fam_rejected += 1
            continue
        fam_built += 1
        if "smt" in row and row.get("anchored"):
            targets.append((t, row, fam[t]))
    # patched programs
    pats = [patch(row["re"]) for _, row, _ in targets]
    flat = []
    for p1, p2, p3 in pats:
        flat.append(p1)
        flat.append(p2)
        flat.append(p3)
    uniq = sorted(set(flat))
    prow = dict(zip(uniq, probe([{"op": "re", "re": p} for p in uniq])))
    tasks = []
    sometimes = []
    for i, ((text, row, ast), (p1, p2, p3)) in enumerate(zip(targets, pats)):
        r1, r2, r3 = prow[p1], prow[p2], prow[p3]
        if "\u0001" not in text and r3 and "smt" in r3 and ZOM in p3:
            tasks.append((("zom", i), member(inter(r3["smt"], ZOMZOM))))
        if not r1 or "smt" not in r1 or not r2 or "smt" not in r2 or _TREE.search(p1):
            rep.undecided_add({"program": text, "why": "patched pattern not translatable"})
            continue
        tasks.append((("wf", i), member(inter(r1["smt"], NOT_WF))))
        if row["root"] == "Always":
            tasks.append((("root", i), member(inter(r2["smt"], UNROOTED))))
        elif row["root"] == "Never":
            tasks.append((("root", i), member(inter(r2["smt"], ROOTED))))
        else:
            sometimes.append(i)
    res = ses.solve(tasks)
    wit = [(k, v[1]) for k, v in res.items() if v[0] == "sat"]
    for k, v in res.items():
        if v[0] in ("unknown", "error"):
            rep.undecided_add({"program": targets[k[1]][0], "clause": k[0], "why": v[1]})
    # a marker stands for the text of a zero-or-more wildcard: the path with some text in its place
    # must really match
    real = ses.replay_match([({"glob": targets[k[1]][0]}, w.replace("\u0001", "m")) for k, w in wit])
    for (k, w), r in zip(wit, real):
        text, row, ast = targets[k[1]]
        if not r["m"]:
            raise Inconclusive("witness %r for %r (%s) does not reproduce" % (w, text, k[0]))
        roles = set()
        if nested_edge(text, ast) or (k[0] == "zom" and nested_zom(text, ast)):
            roles.add("boundary-at-nested-branch-edge")
        if k[0] == "wf":
            roles.add("built-glob-has-adjacent-boundaries")
        elif k[0] == "zom":
            roles.add("built-glob-has-adjacent-zero-or-more-wildcards")
            rep.candidate(roles, {"short": {"program": text, "clause": "zom", "unfolding": w.replace("\u0001", "*"),
                                            "path": w.replace("\u0001", "m"), "real_is_match": True, "pattern": row["re"],
                                            "meaning": "the expression builds, yet in the unfolding shown (each * is the text of one zero-or-more wildcard) two zero-or-more wildcards are adjacent"}})
            continue
        else:
            roles.add("built-glob-rooted-only-sometimes")
        rep.candidate(roles, {"short": {"program": text, "clause": k[0], "path": w, "real_is_match": True,
                                        "has_root": row["root"], "pattern": row["re"],
                                        "meaning": "the expression builds, yet the path shows an unfolding with two adjacent component boundaries" if k[0] == "wf" else
                                                   "the expression builds, reports has_root %s, yet matches a path of the other kind through whole-component tree wildcards" % row["root"]}})
    for i in sometimes:
        text, row, ast = targets[i]
        roles = {"glob-sometimes-rooted"}
        if nested_edge(text, ast):
            roles.add("boundary-at-nested-branch-edge")
        rep.candidate(roles, {"short": {"program": text, "clause": "sometimes", "has_root": "Sometimes", "pattern": row["re"]}})
    for i in range(0, len(targets), max(1, len(targets) // 8)):
        rep.sample({"program": targets[i][0], "compiled": targets[i][1]["re"], "patched": pats[i][0],
                    "obligations": "L'(g) ∩ Σ*//Σ* = ∅ ; L'(g) ⊆ rooted or L'(g) ⊆ unrooted according to has_root()",
                    "verdicts": [res.get(("wf", i), ("-",))[0], res.get(("root", i), ("-",))[0]]})
    rep.assumptions += [
        "acceptance soundness only: that well-formed expressions are *not* rejected, and the rules that leave no trace in the compiled program (bodies that are solely a wildcard, bounds, size) are outside the claim; O3: with every zero-or-more wildcard replaced by a marker, no unfolding has two adjacent markers",
        "L'(g): tree wildcards range over non-empty runs of complete components, zero-or-more wildcards over non-empty text, repetitions over at least one iteration (each a subset of what the token matches), everything else as compiled",
    ]
    return ses.finish(len(targets), {
        "generated": stats, "rule_family": {"expressions": len(ftexts), "built": fam_built, "rejected": fam_rejected},
        "sometimes_rooted": len(sometimes),
        "functions_encoded": ["token::parse (concretely)", "rule::check (concretely: verdict)", "encode::compile",
                              "Token::has_root"]})


if __name__ == "__main__":
    main_wrapper(run)
