import sys, os
sys.path.insert(0, os.path.join(os.path.dirname(os.path.abspath(__file__)), "..", "kanidrv"))
import runprop
runprop.main("C14", "bounded model checking of the real code on a FINITE TABLE of concrete path shapes (bases x prefixes x entry depths); the solver's symbolic part is the file/dir flag only: this is not a for-all-paths result")
