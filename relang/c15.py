import sys, os
sys.path.insert(0, os.path.join(os.path.dirname(os.path.abspath(__file__)), "..", "kanidrv"))
import runprop
runprop.main("C15")
