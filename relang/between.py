"""C04, between-capture clause: the text between consecutive captures (and before the first /
after the last) is exactly what the literals and separators of the expression lying between the
corresponding sub-expressions match.

Reduction: captures are top-level regex groups (structure clause), so the text between two
consecutive participating captures is matched by the top-level pieces of the compiled pattern that
lie strictly between the two pieces holding the groups; separators absorbed by a tree wildcard sit
inside its own piece on both sides of the comparison. The solver decides, per gap, equality of the
implementation's language of those pieces with the reference language of the literal / separator
tokens between the two sub-expressions (built from the AST, flags in force threaded textually).
A disagreement is replayed on a whole path through the real matched(): the real capture offsets
must exhibit a between-text outside the reference language."""
import gen
import ref
from core import probe, member, cat, symdiff, diff, lit, esc, EPS


def gaps(ast, orbits):
    """-> list of reference languages [before cap 1, between 1 and 2, ..., after cap n] and the
    list of capturing-token kinds; None if the expression has an unspecified construct."""
    ctx = ref.Ctx(orbits)
    out = []
    cur = []
    items = gen.nonflag(ast)
    n = len(items)
    idx = -1
    for it in ast:
        if it[0] == "flag":
            ctx.ci = it[2]
            continue
        idx += 1
        if it[0] == "lit":
            cur.append(ref.lit_re(it[1], ctx.ci, ctx.orbits))
        elif it[0] == "sep":
            cur.append(lit("/"))
        else:
            # a capturing token: closes the current gap; flags inside it thread on
            ref.ref([it], ctx, idx == 0, idx == n - 1)
            out.append(cat(*cur) if cur else EPS)
            cur = []
    out.append(cat(*cur) if cur else EPS)
    if ctx.unspec:
        return None
    return out


def piece_gaps(pieces, ncaps):
    """Implementation side: languages of the top-level pieces strictly between the pieces that hold
    consecutive groups. None if a piece holds several groups or the groups are out of order."""
    holder = {}
    for k, p in enumerate(pieces):
        if len(p["caps"]) > 1:
            return None
        for c in p["caps"]:
            holder[c] = k
    if sorted(holder) != list(range(1, ncaps + 1)):
        return None
    ks = [holder[c] for c in range(1, ncaps + 1)]
    if ks != sorted(ks) or len(set(ks)) != len(ks):
        return None
    out = []
    prev = -1
    for k in ks + [len(pieces)]:
        between = [p["smt"] for p in pieces[prev + 1:k]]
        out.append(cat(*between) if between else EPS)
        prev = k
    return out, ks


def run_between(ses, usable, orbits):
    """usable: records with ast_ok and captures. Adds candidates to ses.rep; returns counts."""
    rep = ses.rep
    tasks = []
    info = {}
    skipped = 0
    for i, r in enumerate(usable):
        row = r["row"]
        pieces = row.get("pieces")
        ncaps = len(row["caps"])
        if not pieces:
            skipped += 1
            continue
        pg = piece_gaps(pieces, ncaps)
        rg = gaps(r["ast"], orbits)
        if pg is None or rg is None or len(pg[0]) != len(rg):
            skipped += 1
            continue
        impl, ks = pg
        for j, (a, b) in enumerate(zip(impl, rg)):
            if a == b:
                continue
            key = (i, j)
            info[key] = (r, a, b, ks)
            tasks.append((key, member(symdiff(a, b))))
    res = ses.solve(tasks)
    confirmed = 0
    for key, (status, w, _) in res.items():
        r, a, b, ks = info[key]
        if status in ("unknown", "error"):
            rep.undecided_add({"program": r["text"], "gap": key[1], "why": w})
            continue
        if status != "sat":
            continue
        # replay: a whole path whose gap text is the witness
        pieces = r["row"]["pieces"]
        j = key[1]
        lo = ks[j - 1] + 1 if j > 0 else 0
        hi = ks[j] if j < len(ks) else len(pieces)
        whole = cat(*([p["smt"] for p in pieces[:lo]] + [lit(w)] + [p["smt"] for p in pieces[hi:]]))
        sres = ses.solve([("w", member(whole))], keep_unsat=False)["w"]
        in_impl = ses.solve([("g", '(assert (= s "%s"))\n' % esc(w) + member(a))], keep_unsat=False)["g"][0] == "sat"
        record = {"program": r["text"], "gap_after_capture": j, "witness_gap_text": w,
                  "implementation_accepts_gap_text": in_impl,
                  "reference_between": "literals/separators between the two sub-expressions"}
        if sres[0] == "sat" and in_impl:
            path = sres[1]
            real = ses.replay_match([({"glob": r["text"]}, path)])[0]
            record["path"] = path
            record["real_captures"] = real.get("caps")
            record["real_offsets"] = real.get("offs")
            if not real.get("matched"):
                continue  # engine does not match this path this way
            offs = real.get("offs") or []
            n = len(ks)
            left = offs[j][1] if (j > 0 and j < len(offs) and offs[j]) else (0 if j == 0 else None)
            right = offs[j + 1][0] if (j < n and j + 1 < len(offs) and offs[j + 1]) else (len(path.encode()) if j == n else None)
            if left is None or right is None:
                continue  # a neighbouring capture does not participate on this path
            between = path.encode()[left:right].decode("utf-8", "replace")
            record["real_between_text"] = between
            ok = ses.solve([("g", '(assert (= s "%s"))\n' % esc(between) + member(b))], keep_unsat=False)["g"][0]
            if ok == "unsat":
                confirmed += 1
                rep.candidate({"between-capture-text-differs"}, {"short": record})
        elif not in_impl:
            # the reference accepts a gap text the implementation cannot produce: the literals
            # between the captures match less than the expression says -- find a path the real
            # code rejects although replacing the gap by the witness is what the documentation
            # promises; this direction is C01's (Must minus L), reported there.
            continue
    return {"between_gaps_checked": len(info), "between_confirmed": confirmed, "between_skipped_programs": skipped}
