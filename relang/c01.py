"""C01 -- matching conforms to the documented glob semantics (engine A, Must <= L <= May)."""
import gen
import progs
import ref
import roles
from core import probe, member, inter, diff, tier, main_wrapper, Inconclusive
from session import Session


def run():
    ses = Session("C01")
    rep = ses.rep
    recs, stats, _ = progs.load()
    usable = [r for r in recs if r["ast_ok"]]
    orbits = probe([{"op": "fold", "chars": ref.needed_orbit_chars([r["ast"] for r in usable])}])[0]["orbits"]
    tasks = []
    checked = []
    unspecified = 0
    for i, r in enumerate(usable):
        must, may, unspec = ref.reference(r["ast"], orbits)
        if unspec:
            unspecified += 1
            continue
        checked.append(i)
        L = r["row"]["smt"]
        tasks.append((("over", i), member(inter("WF", diff(L, may)))))
        tasks.append((("under", i), member(inter("WF", diff(must, L)))))
    res = ses.solve(tasks)
    wit = []
    for key, (status, w, _) in res.items():
        if status in ("unknown", "error"):
            rep.undecided_add({"program": usable[key[1]]["text"], "clause": key[0], "why": w})
        elif status == "sat":
            wit.append((key, w))
    real = ses.replay_match([({"glob": usable[i]["text"]}, w) for (_, i), w in wit])
    # known-finding attribution by term patch (rooted leading tree wildcard)
    refs = {}

    def patched_query(key, patched_smt):
        kind, i = key
        must, may, _ = ref.reference(usable[i]["ast"], orbits)
        if kind == "over":
            return member(inter("WF", diff(patched_smt, may)))
        return member(inter("WF", diff(must, patched_smt)))
    explained = ses.patched_unsat([(key, usable[key[1]]["row"]["re"]) for key, _ in wit], patched_query)
    for ((kind, i), w), r in zip(wit, real):
        text = usable[i]["text"]
        if r["m"] != (kind == "over"):
            raise Inconclusive("witness %r (%s) for %r does not reproduce on the real build" % (w, kind, text))
        if (kind, i) in ses.patch_undecided:
            rep.undecided_add({"program": text, "clause": kind, "why": "patched obligation (known-finding attribution) undecided"})
            continue
        rs = {"accepts-undocumented" if kind == "over" else "rejects-documented"}
        ar = roles.ast_roles(usable[i]["ast"])
        if (kind, i) in explained:
            rs.add("rooted-leading-tree")
        rs |= ar & {"class-under-case-flag", "lone-rooted-tree"}
        if ref.superposition_mismatch(usable[i]["ast"]):
            rs.add("tree-at-branch-edge")
        if "\n" in w:
            rs.add("newline-in-path")
        rep.candidate(rs, {"short": {"program": text, "clause": kind, "path": w,
                                     "real_is_match": r["m"], "pattern": usable[i]["row"]["re"]}})
    for i in checked[:400:40]:
        must, may, _ = ref.reference(usable[i]["ast"], orbits)
        rep.sample({"program": usable[i]["text"], "compiled": usable[i]["row"]["re"],
                    "obligations": ["WF ∩ (L ∖ May) = ∅", "WF ∩ (Must ∖ L) = ∅"], "may": may[:300]})
    distinct = len({usable[i]["row"]["re"] for i in checked})
    nontrivial = len({usable[i]["row"]["re"] for i in checked if not gen.is_trivial(usable[i]["ast"])})
    rep.assumptions += [
        "well-formed paths: no two adjacent '/' (the documentation defines nothing for '//')",
        "reference semantics relang/ref.py built from the generator's AST alone; Must/May differ only where the README is silent (leading '/' before an unrooted '**/x', trailing '/' after 'x/**')",
        "programs with a tree wildcard at a branch edge lacking its delimiter, or a reversed class range, are counted as unspecified and not checked here (C07 relates them to their substitutions)",
        "simple case-fold orbits of the generator's literal characters are taken from regex-syntax",
    ]
    return ses.finish(len(checked), {
        "programs_unspecified": unspecified, "programs_without_reference_ast": len(recs) - len(usable),
        "distinct_compiled_patterns": distinct, "distinct_nontrivial": nontrivial, "generated": stats,
        "functions_encoded": ["token::parse", "rule::check", "encode::compile", "encode::encode"]})


if __name__ == "__main__":
    main_wrapper(run)
