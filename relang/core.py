"""Shared machinery for the solver-based checks (engine A and the driver side of engine B).

* Probe      -- builds and talks to waxprobe (the real wax API + HIR->SMT translation)
* SolverPool -- z3 5.1.0 (python API) workers; one String variable `s`; per-query timeout
* smt helpers-- RegLan term builders and the path predicates of DESIGN.md section 3.1
* Report     -- verdict protocol (exit codes, VIOLATION / KNOWN-FINDING lines, evidence file)
"""
import json
import multiprocessing as mp
import os
import random
import re
import subprocess
import sys
import time

VERIF = os.path.dirname(os.path.dirname(os.path.abspath(__file__)))
REPO = os.environ.get("WAX_REPO", "/repo")
BUILD = os.path.join(VERIF, ".build")
GUARD = "olson_sean_k_wax_verif"
PROBE_BIN = os.path.join(BUILD, "probe", "release", "waxprobe")
NPROC = int(os.environ.get("VERIF_JOBS", "16"))


def tier():
    t = os.environ.get("VERIF_TIER", "quick")
    return t if t in ("quick", "thorough") else "quick"


def seed():
    try:
        return int(os.environ.get("VERIF_SEED", "1"))
    except ValueError:
        return 1


class Inconclusive(Exception):
    """Raised when the machinery cannot reach a verdict (exit 2)."""


# --------------------------------------------------------------------------------------------
# probe
# --------------------------------------------------------------------------------------------

def cargo_env():
    env = dict(os.environ)
    env["CARGO_NET_OFFLINE"] = "true"
    env["RUSTFLAGS"] = (env.get("RUSTFLAGS", "") + " --cfg " + GUARD + " -A warnings").strip()
    env["WAX_VERIF_DIR"] = VERIF
    return env


def build_probe(quiet=True):
    """Rebuilds waxprobe against /repo's current working tree (cargo decides what is stale)."""
    t0 = time.time()
    lock_src = os.path.join(REPO, "Cargo.lock")
    lock_dst = os.path.join(VERIF, "probe", "Cargo.lock")
    if not os.path.exists(lock_dst) and os.path.exists(lock_src):
        with open(lock_src) as f, open(lock_dst, "w") as g:
            g.write(f.read())
    cmd = ["cargo", "build", "--release", "--offline", "--manifest-path",
           os.path.join(VERIF, "probe", "Cargo.toml"), "--target-dir", os.path.join(BUILD, "probe")]
    # serialise concurrent builds (several checks may start at once)
    os.makedirs(BUILD, exist_ok=True)
    import fcntl
    with open(os.path.join(BUILD, "probe.lock"), "w") as lk:
        fcntl.flock(lk, fcntl.LOCK_EX)
        p = subprocess.run(cmd, env=cargo_env(), capture_output=True, text=True)
    if p.returncode != 0:
        sys.stderr.write(p.stderr[-4000:])
        raise Inconclusive("waxprobe does not build against the working tree (hooks or API changed)")
    return time.time() - t0


def _run_probe_chunk(cmds):
    """Runs a list of commands through one probe process; restarts after aborts."""
    out = [None] * len(cmds)
    start = 0
    while start < len(cmds):
        data = "\n".join(json.dumps(c) for c in cmds[start:]) + "\n"
        p = subprocess.run([PROBE_BIN], input=data, capture_output=True, text=True)
        lines = [l for l in p.stdout.split("\n") if l.strip()]
        for k, l in enumerate(lines):
            try:
                out[start + k] = json.loads(l)
            except json.JSONDecodeError:
                out[start + k] = {"abort": True, "raw": l[:200]}
        done = len(lines)
        if start + done < len(cmds):
            # the process died while executing command start+done (stack overflow, abort, ...)
            out[start + done] = {"abort": True, "returncode": p.returncode,
                                 "stderr": p.stderr[-300:]}
            start = start + done + 1
        else:
            start = len(cmds)
    return out


def probe(cmds, jobs=NPROC):
    """Runs commands (dicts) through the probe in parallel; returns results in order."""
    cmds = list(cmds)
    if not cmds:
        return []
    for i, c in enumerate(cmds):
        c["id"] = i
    n = max(1, min(jobs, (len(cmds) + 199) // 200))
    chunks = [cmds[i::n] for i in range(n)]
    if n == 1:
        res = [_run_probe_chunk(chunks[0])]
    else:
        from concurrent.futures import ThreadPoolExecutor
        with ThreadPoolExecutor(n) as ex:
            res = list(ex.map(_run_probe_chunk, chunks))
    out = [None] * len(cmds)
    for k, chunk in enumerate(res):
        for j, r in enumerate(chunk):
            out[k + j * n] = r
    return out


# --------------------------------------------------------------------------------------------
# SMT terms
# --------------------------------------------------------------------------------------------

def esc(text):
    return "".join("\\u{%x}" % ord(c) for c in text)


def lit(text):
    return '(str.to_re "%s")' % esc(text)


EPS = '(str.to_re "")'
SEP = lit("/")


def cat(*xs):
    xs = [x for x in xs if x != EPS]
    if not xs:
        return EPS
    if len(xs) == 1:
        return xs[0]
    return "(re.++ %s)" % " ".join(xs)


def union(*xs):
    xs = [x for x in xs if x != "re.none"]
    if not xs:
        return "re.none"
    if len(xs) == 1:
        return xs[0]
    return "(re.union %s)" % " ".join(xs)


def inter(*xs):
    if len(xs) == 1:
        return xs[0]
    return "(re.inter %s)" % " ".join(xs)


def diff(a, b):
    return "(re.diff %s %s)" % (a, b)


def star(x):
    return "(re.* %s)" % x


def plus(x):
    return "(re.+ %s)" % x


def opt(x):
    return "(re.opt %s)" % x


def loop(x, lo, hi):
    """x repeated lo..hi times (hi None = unbounded)."""
    if hi is None:
        if lo == 0:
            return star(x)
        if lo == 1:
            return plus(x)
        return cat("((_ re.loop %d %d) %s)" % (lo, lo, x), star(x))
    if lo > hi:
        return "re.none"
    if lo == 0 and hi == 0:
        return EPS
    return "((_ re.loop %d %d) %s)" % (lo, hi, x)


def symdiff(a, b):
    return union(diff(a, b), diff(b, a))


PRELUDE = r"""
(declare-const s String)
(define-fun CH () RegLan (re.union (re.range "\u{0}" "\u{d7ff}") (re.range "\u{e000}" "\u{2ffff}")))
(define-fun NSEP () RegLan (re.union (re.range "\u{0}" "\u{2e}") (re.range "\u{30}" "\u{d7ff}") (re.range "\u{e000}" "\u{2ffff}")))
(define-fun ANY () RegLan (re.* CH))
(define-fun C () RegLan (re.+ NSEP))
(define-fun C1 () RegLan (re.diff C (re.union (str.to_re ".") (str.to_re ".."))))
(define-fun WF () RegLan (re.inter ANY (re.comp (re.++ re.all (str.to_re "//") re.all))))
(define-fun CANONREL () RegLan (re.++ C1 (re.* (re.++ (str.to_re "/") C1))))
(define-fun CANONABS () RegLan (re.union (str.to_re "/") (re.++ (str.to_re "/") CANONREL)))
(define-fun CANON () RegLan (re.union CANONREL CANONABS))
"""


def member(term):
    return "(assert (str.in_re s %s))\n" % term


_UESC = re.compile(r"\\u\{([0-9a-fA-F]+)\}|\\u([0-9a-fA-F]{4})")


def decode_z3_string(text):
    """z3's printed string value -> python str; None if it contains a non-scalar code point."""
    bad = []

    def rep(m):
        cp = int(m.group(1) or m.group(2), 16)
        if 0xD800 <= cp <= 0xDFFF or cp > 0x10FFFF:
            bad.append(cp)
            return "?"
        return chr(cp)

    out = _UESC.sub(rep, text)
    return None if bad else out


# --------------------------------------------------------------------------------------------
# solver pool (z3 python API, one solver per worker process)
# --------------------------------------------------------------------------------------------

_solver = None


def _init_worker():
    global _solver
    import z3
    _solver = z3.Solver()


def _solve(task):
    key, text, timeout_ms = task
    import z3
    global _solver
    t0 = time.time()
    try:
        _solver.reset()
        _solver.set("timeout", int(timeout_ms))
        _solver.from_string(PRELUDE + text)
        r = _solver.check()
        if r == z3.sat:
            m = _solver.model()
            v = m.eval(z3.String("s"), model_completion=True)
            return (key, "sat", v.as_string(), time.time() - t0)
        if r == z3.unsat:
            return (key, "unsat", None, time.time() - t0)
        return (key, "unknown", _solver.reason_unknown(), time.time() - t0)
    except Exception as e:  # z3 parse errors etc. -> inconclusive, never a verdict
        _solver = z3.Solver()
        return (key, "error", str(e)[:300], time.time() - t0)


class SolverPool:
    def __init__(self, jobs=NPROC):
        self.pool = mp.get_context("fork").Pool(jobs, initializer=_init_worker)
        self.queries = 0
        self.solver_s = 0.0
        self.counts = {"sat": 0, "unsat": 0, "unknown": 0, "error": 0}
        self.log = []  # (key, text) of unsat queries, for the second-solver cross-check

    def solve(self, tasks, timeout_ms=None, keep_unsat=True, _retry=False):
        """tasks: iterable of (key, smt_text). Returns dict key -> (status, witness|reason, secs)."""
        if timeout_ms is None:
            timeout_ms = 5000 if tier() == "quick" else 15000
            if os.environ.get("VERIF_TIMEOUT_MS"):
                timeout_ms = int(os.environ["VERIF_TIMEOUT_MS"])
        tasks = [(k, t, timeout_ms) for k, t in tasks]
        texts = {k: t for k, t, _ in tasks}
        out = {}
        for key, status, w, secs in self.pool.imap_unordered(_solve, tasks, chunksize=4):
            self.queries += 1
            self.solver_s += secs
            self.counts[status] += 1
            if status == "sat":
                w = decode_z3_string(w)
                if w is None:
                    status = "unknown"
                    w = "witness with non-scalar code point"
                    self.counts["sat"] -= 1
                    self.counts["unknown"] += 1
            if status == "unsat" and keep_unsat:
                self.log.append((key, texts[key]))
            out[key] = (status, w, secs)
        # one retry of undecided queries with a six times longer timeout
        retry = [(k, texts[k], timeout_ms * 6) for k, v in out.items() if v[0] == "unknown"]
        if retry and not _retry:
            self.counts["unknown"] -= len(retry)
            self.queries -= len(retry)
            again = self.solve([(k, t) for k, t, _ in retry], timeout_ms=timeout_ms * 6,
                               keep_unsat=keep_unsat, _retry=True)
            out.update(again)
        return out

    def close(self):
        self.pool.close()
        self.pool.join()


def cross_check_unsat(pool, sample_size, rnd, timeout_s=20):
    """Re-runs a sample of the unsat queries on z3 4.8.12 (/usr/bin/z3), a different generation of
    the sequence/regex solver. Returns (checked, agreed, unknown, disagreements)."""
    log = pool.log
    if not log:
        return (0, 0, 0, [])
    sample = log if sample_size >= len(log) else rnd.sample(log, sample_size)
    chunks = [sample[i::NPROC] for i in range(NPROC) if sample[i::NPROC]]

    def run(chunk):
        text = "(set-option :timeout %d)\n" % (timeout_s * 1000) + PRELUDE
        for _, q in chunk:
            text += "(push)\n" + q + "(check-sat)\n(pop)\n"
        p = subprocess.run(["/usr/bin/z3", "-in"], input=text, capture_output=True, text=True)
        lines = [l.strip() for l in p.stdout.split("\n") if l.strip()]
        return lines

    from concurrent.futures import ThreadPoolExecutor
    with ThreadPoolExecutor(len(chunks)) as ex:
        results = list(ex.map(run, chunks))
    checked = agreed = unknown = 0
    bad = []
    texts = dict(sample)
    fixed = []
    for chunk, lines in zip(chunks, results):
        if any(l.startswith("(error") for l in lines) or len(lines) != len(chunk):
            # the old solver crashed or choked somewhere in this batch: ask one query per process;
            # whatever it cannot answer is counted as unknown (it is only the second opinion)
            lines = []
            for _, q in chunk:
                try:
                    p = subprocess.run(["/usr/bin/z3", "-in", "-T:%d" % timeout_s],
                                       input=PRELUDE + q + "(check-sat)\n", capture_output=True,
                                       text=True, timeout=timeout_s + 10)
                    out = [l.strip() for l in p.stdout.split("\n") if l.strip()]
                    lines.append(out[0] if out and out[0] in ("sat", "unsat") else "unknown")
                except Exception:
                    lines.append("unknown")
        fixed.append(lines)
    for chunk, lines in zip(chunks, fixed):
        for (key, _), l in zip(chunk, lines):
            checked += 1
            if l == "unsat":
                agreed += 1
            elif l == "sat":
                bad.append(key)
            else:
                unknown += 1
    # A `sat` from the old solver is only a disagreement if its witness really is a model: z3 4.8.12
    # is known to answer sat wrongly on some terms with empty classes under loops. The witness is
    # evaluated as a GROUND query by z3 5.1.0 and by cvc5; if neither accepts it, the old solver's
    # answer is recorded as spurious.
    real_bad = []
    spurious = 0
    for key in bad:
        q = texts[key]
        p = subprocess.run(["/usr/bin/z3", "-in", "-T:%d" % timeout_s],
                           input=PRELUDE + q + "(check-sat)\n(get-value (s))\n",
                           capture_output=True, text=True)
        m = re.search(r'\(\(s "((?:[^"]|"")*)"\)\)', p.stdout)
        if not m:
            real_bad.append(key)
            continue
        w = decode_z3_string(m.group(1).replace('""', '"'))
        if w is None:
            spurious += 1
            continue
        g = '(assert (= s "%s"))\n' % esc(w) + q
        r1 = pool.solve([("g", g)], timeout_ms=20000, keep_unsat=False)["g"][0]
        try:
            c = subprocess.run(["cvc5", "--lang", "smt2", "--strings-exp", "--tlimit=20000"],
                               input="(set-logic ALL)\n" + PRELUDE + g + "(check-sat)\n",
                               capture_output=True, text=True)
            r2 = c.stdout.strip().split("\n")[-1] if c.stdout.strip() else "unknown"
        except Exception:
            r2 = "unknown"
        if r1 == "unsat" and r2 != "sat":
            spurious += 1
        else:
            real_bad.append(key)
    cross_check_unsat.spurious = spurious
    return (checked, agreed, unknown, real_bad)


def ground_member(pool, term, text, timeout_ms=10000):
    """Decides `text in term` with the solver (ground query)."""
    q = '(assert (= s "%s"))\n' % esc(text) + member(term)
    r = pool.solve([("g", q)], timeout_ms=timeout_ms, keep_unsat=False)["g"]
    return r[0]


# --------------------------------------------------------------------------------------------
# translator self-test: the repository's own (expression, path, expected) test vectors are pushed
# through the real is_match and through a ground solver evaluation of the translated term
# --------------------------------------------------------------------------------------------

_CASE = re.compile(r'#\[case(?:::\w+)?\(\s*"((?:[^"\\]|\\.)*)"\s*,\s*harness::assert_matched_(has_text|is_some|is_none)')
_GLOB = re.compile(r'assert_new_glob_is_ok\(\s*"((?:[^"\\]|\\.)*)"\s*\)')


def _unescape_rust(s):
    return (s.replace('\\\\', '\x00').replace('\\"', '"').replace('\\n', '\n')
             .replace('\\t', '\t').replace('\x00', '\\'))


def repo_test_vectors():
    """(expression, path, expected_match) triples extracted textually from src/lib.rs tests."""
    src = open(os.path.join(REPO, "src", "lib.rs"), encoding="utf-8").read()
    out = []
    # each rstest function: a run of #[case(...)] lines followed by a body naming the glob
    for block in re.split(r"\n    #\[rstest\]\n", src):
        g = _GLOB.search(block)
        if not g or "assert_match_program_with" not in block:
            continue
        expr = _unescape_rust(g.group(1))
        for m in _CASE.finditer(block):
            out.append((expr, _unescape_rust(m.group(1)), m.group(2) != "is_none"))
    return out


def translator_selftest(pool):
    vecs = repo_test_vectors()
    if len(vecs) < 50:
        raise Inconclusive("could not extract the repository's match test vectors (%d)" % len(vecs))
    exprs = sorted({e for e, _, _ in vecs})
    rows = probe([{"op": "glob", "e": e} for e in exprs])
    info = dict(zip(exprs, rows))
    by_expr = {}
    for e, p, exp in vecs:
        by_expr.setdefault(e, []).append((p, exp))
    real = probe([{"op": "match", "target": {"glob": e}, "paths": [p for p, _ in by_expr[e]]}
                  for e in exprs])
    tasks = []
    expect = {}
    for e, r in zip(exprs, real):
        if not info[e].get("ok") or "smt" not in info[e]:
            raise Inconclusive("self-test: repository test glob did not build/translate: %r" % e)
        for (p, exp), res in zip(by_expr[e], r["results"]):
            key = (e, p)
            expect[key] = (exp, res["m"])
            tasks.append((key, '(assert (= s "%s"))\n' % esc(p) + member(info[e]["smt"])))
    res = pool.solve(tasks, timeout_ms=20000, keep_unsat=False)
    n = 0
    for key, (status, _, _) in res.items():
        exp, real_m = expect[key]
        if status not in ("sat", "unsat"):
            raise Inconclusive("self-test undecided on %r" % (key,))
        if (status == "sat") != real_m:
            raise Inconclusive("translator self-test: solver and real is_match disagree on %r "
                               "(solver %s, real %s)" % (key, status, real_m))
        n += 1
    return n


# --------------------------------------------------------------------------------------------
# verdict protocol
# --------------------------------------------------------------------------------------------

def load_known_findings():
    path = os.path.join(VERIF, "known_findings.json")
    if not os.path.exists(path):
        return []
    return json.load(open(path))


class Report:
    def __init__(self, pid, level):
        self.pid = pid
        self.level = level
        self.t0 = time.time()
        self.violations = []      # dicts
        self.known = {}           # finding id -> list of examples
        self.undecided = []
        self.coverage = {}
        self.assumptions = []
        self.findings = [f for f in load_known_findings()
                         if f.get("property") == pid and f.get("status", "known") == "known"]
        self.samples = []
        self._det = None
        self._lists = {}
        self._dump = {}
        self.extra_deterministic = set()

    def sample(self, s, limit=12):
        if len(self.samples) < limit:
            self.samples.append(s)

    # --- known findings identified by input ------------------------------------------------
    # For the deterministic part of the program set (corpus + enumerations; the same texts in every
    # run and for every seed) a known finding is identified by the specific inputs that fail on the
    # pinned tree: known_inputs/<finding id>.jsonl lists [program, clause] pairs. A deterministic
    # program that fails without being listed is a violation even if it belongs to the syntactic
    # class (role) of the finding. Seeded random programs and combinator tuples cannot be listed;
    # for them the role decides. The lists are committed and never written by a check run
    # (VERIF_DUMP_KNOWN_INPUTS=<dir> is a maintenance switch that writes candidate lists elsewhere).
    def _deterministic(self):
        if self._det is None:
            import progs
            self._det = set(progs.program_asts(max_random=0, small="quick")) | set(self.extra_deterministic)
        return self._det

    def _listed(self, fid):
        if fid not in self._lists:
            path = os.path.join(VERIF, "known_inputs", fid + ".jsonl")
            if os.path.exists(path):
                self._lists[fid] = {tuple(json.loads(l)) for l in open(path, encoding="utf-8") if l.strip()}
            else:
                self._lists[fid] = None
        return self._lists[fid]

    @staticmethod
    def _input_key(record):
        sh = record.get("short") or {}
        prog = sh.get("program")
        if not isinstance(prog, str):
            return None
        return (prog, str(sh.get("clause") or sh.get("problem") or ""))

    def candidate(self, roles, record):
        """A counterexample that reproduced on the real build. `roles` is the set of role names the
        checker computed for it; it is attributed to a known finding iff one listed for this
        property has one of these roles and -- for a deterministic program of a finding that has an
        input list -- the input is listed."""
        key = self._input_key(record)
        dumping = bool(os.environ.get("VERIF_DUMP_KNOWN_INPUTS"))
        for f in self.findings:
            if f["role"] in roles:
                det = key is not None and self.level == "translation_validation" and key[0] in self._deterministic()
                if det:
                    self._dump.setdefault(f["id"], set()).add(key)
                    listed = self._listed(f["id"])
                    if listed is not None and key not in listed and not dumping:
                        continue
                self.known.setdefault(f["id"], []).append(record)
                return "known"
        self.violations.append(dict(record, roles=sorted(roles)))
        return "violation"

    def undecided_add(self, what):
        self.undecided.append(what)

    def finish(self, extra_coverage=None, inconclusive=None):
        # VERIF_OUT_DIR (used only when the checks are pointed at a seeded change, see evalmut.sh)
        # keeps such runs from overwriting the evidence of the unchanged tree
        OUT = os.environ.get("VERIF_OUT_DIR") or VERIF
        os.makedirs(os.path.join(OUT, "evidence"), exist_ok=True)
        os.makedirs(os.path.join(OUT, "replays"), exist_ok=True)
        import glob as _glob
        for old in _glob.glob(os.path.join(OUT, "replays", self.pid + "-*.json")):
            os.remove(old)
        if os.environ.get("VERIF_DUMP_KNOWN_INPUTS"):
            d = os.environ["VERIF_DUMP_KNOWN_INPUTS"]
            os.makedirs(d, exist_ok=True)
            for fid, keys in self._dump.items():
                with open(os.path.join(d, fid + ".jsonl"), "a", encoding="utf-8") as f:
                    for k in sorted(keys):
                        f.write(json.dumps(list(k), ensure_ascii=False) + "\n")
        cov = dict(self.coverage)
        if extra_coverage:
            cov.update(extra_coverage)
        cov.setdefault("samples", self.samples or [{"note": "no sample recorded"}])
        cov["undecided"] = len(self.undecided)
        cov["undecided_examples"] = self.undecided[:5]
        cov["known_findings_hit"] = {k: len(v) for k, v in self.known.items()}
        ev = {
            "property_id": self.pid, "tier": tier(), "seed": seed(), "level": self.level,
            "coverage": cov, "assumptions": self.assumptions,
            "wall_s": round(time.time() - self.t0, 2), "violations": len(self.violations),
        }
        with open(os.path.join(OUT, "evidence", self.pid + ".json"), "w") as f:
            json.dump(ev, f, indent=1, ensure_ascii=False, default=str)
        for f in self.findings:
            if f["id"] in self.known:
                ex = self.known[f["id"]][0]
                print("KNOWN-FINDING: property=%s %s [%s; %d case(s) this run, e.g. %s]" % (
                    self.pid, f["what"], f["id"], len(self.known[f["id"]]),
                    json.dumps(ex.get("short", ex))[:200]))
        if inconclusive and not self.violations:
            print("INCONCLUSIVE property=%s %s" % (self.pid, inconclusive))
            return 2
        if inconclusive:
            # a reproduced violation stands; what could not be decided besides it is reported too
            print("NOTE property=%s partly inconclusive: %s" % (self.pid, inconclusive[:600]))
        if self.violations:
            # group by role signature so that one replay file describes one kind of failure
            seen = {}
            for v in self.violations:
                seen.setdefault(tuple(v["roles"]), []).append(v)
            for k, (roles, vs) in enumerate(sorted(seen.items())):
                path = os.path.join(OUT, "replays", "%s-%d.json" % (self.pid, k))
                with open(path, "w") as f:
                    json.dump({"property": self.pid, "roles": list(roles), "count": len(vs),
                               "cases": vs[:50]}, f, indent=1, ensure_ascii=False, default=str)
                print("VIOLATION property=%s replay=%s" % (self.pid, path))
                print("  %d case(s), e.g. %s" % (
                    len(vs), json.dumps(vs[0].get("short", vs[0]))[:300]))
            return 1
        print("OK property=%s tier=%s %s" % (self.pid, tier(), json.dumps(
            {k: v for k, v in cov.items() if isinstance(v, (int, float, bool))})))
        return 0


def main_wrapper(fn):
    try:
        rc = fn()
    except Inconclusive as e:
        print("INCONCLUSIVE %s" % e)
        rc = 2
    sys.stdout.flush()
    sys.exit(rc)
