"""C11 -- invariant text is the one and only path the pattern matches (engine A)."""
import random

import gen
import progs
from core import (Report, SolverPool, build_probe, probe, member, esc, translator_selftest,
                  cross_check_unsat, tier, seed, main_wrapper, Inconclusive)


def lists_separator_class(ast):
    return any(it[0] == "class" and any((a[0] == "c" and a[1] == "/") or
                                        (a[0] == "r" and a[1] <= "/" <= a[2]) for a in it[2])
               for it in gen.walk_items(ast))


def run():
    rep = Report("C11", "translation_validation")
    build_s = build_probe()
    pool = SolverPool()
    n_self = translator_selftest(pool)
    recs, stats, _ = progs.load()
    rnd = random.Random(seed())
    # targets: globs reporting invariant text, and combinators built from them
    targets = []   # (label, target-spec, smt, text, ast-or-None)
    inv = [r for r in recs if r["row"]["text"] is not None]
    for r in inv:
        targets.append((r["text"], {"glob": r["text"]}, r["row"]["smt"], r["row"]["text"],
                        r["ast"] if r["ast_ok"] else None))
    pairs = []
    pool_inv = [r["text"] for r in inv]
    for _ in range(min(len(pool_inv), 300 if tier() == "quick" else 3000)):
        a = rnd.choice(pool_inv)
        b = rnd.choice(pool_inv)
        for mode in ("text", "glob", "nested"):
            pairs.append(([a], mode))
            pairs.append(([a, a], mode))
            pairs.append(([a, b], mode))
    seen = set()
    pairs = [p for p in pairs if (tuple(p[0]), p[1]) not in seen and not seen.add((tuple(p[0]), p[1]))]
    anyrows = probe([{"op": "any", "pats": p, "mode": m} for p, m in pairs])
    n_any_inv = 0
    for (p, m), row in zip(pairs, anyrows):
        if row.get("ok") and row.get("text") is not None and "smt" in row:
            n_any_inv += 1
            targets.append(("any(%s;%s)" % (",".join(p), m), {"any": p, "mode": m}, row["smt"],
                            row["text"], None))
    if not targets:
        return rep.finish(inconclusive="no program reports invariant text (vacuous)")
    # obligation 1: s in L and s != t  is unsat          obligation 2: t in L (ground)
    tasks = []
    for i, (label, spec, smt, text, ast) in enumerate(targets):
        tasks.append((("only", i), '(assert (not (= s "%s")))\n' % esc(text) + member(smt)))
        if ast is not None and not lists_separator_class(ast):
            tasks.append((("self", i), '(assert (= s "%s"))\n' % esc(text) + member(smt)))
    res = pool.solve(tasks)
    replay = []
    for key, (status, w, _) in res.items():
        kind, i = key
        label, spec, smt, text, ast = targets[i]
        if status in ("unknown", "error"):
            rep.undecided_add({"program": label, "clause": kind, "why": w})
        elif kind == "only" and status == "sat":
            replay.append((key, spec, w))
        elif kind == "self" and status == "unsat":
            replay.append((key, spec, text))
    rr = probe([{"op": "match", "target": spec, "paths": [w]} for _, spec, w in replay])
    for (key, spec, w), row in zip(replay, rr):
        kind, i = key
        label, _, _, text, _ = targets[i]
        m = row.get("ok") and row["results"][0]["m"]
        if kind == "only":
            if not m:
                raise Inconclusive("witness %r for %r does not reproduce on the real build" % (w, label))
            rep.candidate({"matches-other-than-invariant-text"},
                          {"short": {"program": label, "text": text, "also_matches": w}})
        else:
            if m:
                raise Inconclusive("solver says %r does not match its own text but real code does" % label)
            rep.candidate({"does-not-match-own-text"}, {"short": {"program": label, "text": text}})
    for (label, spec, smt, text, ast) in targets[:6]:
        rep.sample({"program": label, "invariant_text": text,
                    "obligation": "forall s. s in L(program) => s == text; text in L(program)"})
    xs = cross_check_unsat(pool, 200 if tier() == "quick" else 10 ** 9, rnd)
    if xs[3]:
        raise Inconclusive("z3 4.8.12 disagrees with z3 5.1.0 on %r" % (xs[3][:3],))
    rep.assumptions += [
        "paths are all strings over Unicode scalar values U+0000..U+2FFFF (SMT-LIB alphabet), any length",
        "regex-automata matches exactly the language of the regex-syntax HIR of the pattern text",
        "the 'does match its own text' clause is skipped for expressions with a class listing '/' and for corpus strings the reference parser cannot parse",
    ]
    pool.close()
    return rep.finish({
        "programs": len(targets), "globs_invariant": len(inv), "combinators_invariant": n_any_inv,
        "disagreements_checked": len(replay),
        "queries": pool.queries, "discharged": pool.counts["unsat"] + pool.counts["sat"] - len(replay),
        "solver_s": round(pool.solver_s, 2), "build_s": round(build_s, 1),
        "selftest_vectors": n_self, "second_solver": {"checked": xs[0], "agreed": xs[1], "unknown": xs[2]},
        "generated": stats, "functions_encoded": ["token::parse", "rule::check", "encode::compile",
                                                   "Token::variance::<Text>", "crate::any"],
        "bounds": "programs: DESIGN 3.2 (%s tier); paths: unbounded length" % tier(),
    })


if __name__ == "__main__":
    main_wrapper(run)
