"""Glob expression ASTs: printer, (reference-side) parser, normaliser and generators.

AST = list of items (a concatenation). Items:
  ('lit', text)                literal text (unescaped value)
  ('sep',)                     '/'
  ('one',) ('zom',) ('lazy',)  '?', '*', '$'
  ('tree', lead, trail)        '**' with the separators it absorbs
  ('class', neg, [('c', ch) | ('r', lo, hi)])
  ('alt', [ast, ...])
  ('rep', ast, form)           form: None | ':' | (n,) | (n, None) | (n, m)   ->  <..> <..:> <..:n> <..:n,> <..:n,m>
  ('flag', text, ci)           '(?i)' '(?-i)' '(?i-i)' ...; ci = resulting case-insensitivity

The generator owns the AST, so everything the reference semantics needs (flag in force for each
literal in textual order, position of tree wildcards, capturing top-level tokens) is known without
consulting wax's parser.
"""
import os
import re

META = "?*$:<>()[]{},"


def show_lit(text):
    return "".join(("\\" + c) if c in META else c for c in text)


def show_class_char(c):
    return ("\\" + c) if c in "[]-" else c


def rep_bounds(form):
    """Documented meaning of a bounds form -> (lo, hi|None)."""
    if form is None:
        return (0, None)
    if form == ":":
        return (1, None)
    if len(form) == 1:
        return (form[0], form[0])
    return (form[0], form[1])


def show_form(form):
    if form is None:
        return ""
    if form == ":":
        return ":"
    if len(form) == 1:
        return ":%d" % form[0]
    if form[1] is None:
        return ":%d," % form[0]
    return ":%d,%d" % form


def show(ast):
    out = []
    for it in ast:
        k = it[0]
        if k == "lit":
            out.append(show_lit(it[1]))
        elif k == "sep":
            out.append("/")
        elif k == "one":
            out.append("?")
        elif k == "zom":
            out.append("*")
        elif k == "lazy":
            out.append("$")
        elif k == "tree":
            out.append(("/" if it[1] else "") + "**" + ("/" if it[2] else ""))
        elif k == "class":
            s = "[" + ("!" if it[1] else "")
            for a in it[2]:
                if a[0] == "c":
                    s += show_class_char(a[1])
                else:
                    s += show_class_char(a[1]) + "-" + show_class_char(a[2])
            out.append(s + "]")
        elif k == "alt":
            out.append("{" + ",".join(show(b) for b in it[1]) + "}")
        elif k == "rep":
            out.append("<" + show(it[1]) + show_form(it[2]) + ">")
        elif k == "flag":
            out.append(it[1])
        else:
            raise ValueError(k)
    return "".join(out)


# ---------------------------------------------------------------------------------------------
# reference-side parser (documented syntax). Returns None for anything it does not understand;
# the caller cross-checks the result structurally against what wax reports (capture spans).
# ---------------------------------------------------------------------------------------------

class _P:
    def __init__(self, text):
        self.t = text
        self.i = 0
        self.ci = False

    def peek(self, n=1):
        return self.t[self.i:self.i + n]

    def flags(self):
        out = []
        while self.peek(2) == "(?":
            j = self.i + 2
            toggles = []
            while True:
                if self.t[j:j + 2] == "-i":
                    toggles.append(False)
                    j += 2
                elif self.t[j:j + 1] == "i":
                    toggles.append(True)
                    j += 1
                else:
                    break
            if not toggles or self.t[j:j + 1] != ")":
                raise ValueError("flag")
            self.ci = toggles[-1]
            out.append(("flag", self.t[self.i:j + 1], self.ci))
            self.i = j + 1
        return out

    def concat(self, terms):
        items = []
        start = self.i
        while self.i < len(self.t) and self.peek() not in terms:
            fl = self.flags()
            items.extend(fl)
            if self.i >= len(self.t) or self.peek() in terms:
                raise ValueError("flags at end of sub-expression")
            c = self.peek()
            if c == "/":
                # separator or rooted/leading tree
                j = self.i + 1
                save_ci = self.ci
                # flags may sit between '/' and '**'
                p2 = _P(self.t)
                p2.i = j
                p2.ci = self.ci
                try:
                    inner = p2.flags()
                except ValueError:
                    inner = []
                if self.t[p2.i:p2.i + 2] == "**" and self._tree_end_ok(p2.i + 2, terms):
                    if inner:
                        raise ValueError("flag inside tree wildcard (not generated)")
                    self.i = p2.i + 2
                    trail = self._tree_postfix(terms)
                    items.append(("tree", True, trail))
                else:
                    self.ci = save_ci
                    self.i += 1
                    items.append(("sep",))
            elif c == "*":
                if self.peek(2) == "**":
                    if self.i != start and not (items and all(x[0] == "flag" for x in items) and False):
                        # '**' not at the beginning of the sub-expression and without '/' prefix
                        if not self._at_boe(items):
                            raise ValueError("tree without delimiter")
                    if not self._tree_end_ok(self.i + 2, terms):
                        raise ValueError("tree without terminator")
                    self.i += 2
                    trail = self._tree_postfix(terms)
                    items.append(("tree", False, trail))
                else:
                    self.i += 1
                    self._zom_follow(terms)
                    items.append(("zom",))
            elif c == "$":
                self.i += 1
                self._zom_follow(terms)
                items.append(("lazy",))
            elif c == "?":
                self.i += 1
                items.append(("one",))
            elif c == "[":
                items.append(self.klass())
            elif c == "{":
                self.i += 1
                branches = []
                while True:
                    branches.append(self.concat(",}"))
                    if self.peek() == ",":
                        self.i += 1
                        continue
                    if self.peek() == "}":
                        self.i += 1
                        break
                    raise ValueError("alt")
                items.append(("alt", branches))
            elif c == "<":
                self.i += 1
                body = self.concat(":>")
                form = None
                if self.peek() == ":":
                    self.i += 1
                    m = re.match(r"(\d+),(\d+)?|(\d+)", self.t[self.i:])
                    if m:
                        self.i += m.end()
                        if m.group(3) is not None:
                            form = (int(m.group(3)),)
                        else:
                            form = (int(m.group(1)), int(m.group(2)) if m.group(2) else None)
                    else:
                        form = ":"
                if self.peek() != ">":
                    raise ValueError("rep")
                self.i += 1
                items.append(("rep", body, form))
            elif c in META:
                raise ValueError("stray meta " + c)
            else:
                text = ""
                while self.i < len(self.t):
                    c = self.peek()
                    if c == "\\":
                        n = self.t[self.i + 1:self.i + 2]
                        if n and n in META:
                            text += n
                            self.i += 2
                        else:
                            raise ValueError("bad escape")
                    elif c == "/" or c in META:
                        break
                    else:
                        text += c
                        self.i += 1
                if not text:
                    raise ValueError("empty literal")
                items.append(("lit", text))
        if not [x for x in items if x[0] != "flag"]:
            raise ValueError("empty sub-expression")
        return items

    def _at_boe(self, items):
        # beginning of (sub)expression: only flags so far -- the real parser requires the
        # location to equal the sub-expression start *before* flags; flags then '**' is not
        # accepted there, so be strict.
        return len(items) == 0

    def _tree_end_ok(self, j, terms):
        # after '**' must come (flags)? '/' or a terminator (end or one of terms)
        if j >= len(self.t) or self.t[j] in terms or self.t[j] == "/":
            return True
        if self.t[j:j + 2] == "(?":
            return True  # decided in _tree_postfix
        return False

    def _tree_postfix(self, terms):
        if self.i < len(self.t) and self.peek() == "/":
            self.i += 1
            return True
        if self.i >= len(self.t) or self.peek() in terms:
            return False
        if self.peek(2) == "(?":
            raise ValueError("flag inside tree wildcard (not generated)")
        raise ValueError("tree postfix")

    def _zom_follow(self, terms):
        # a zero-or-more wildcard must not be followed (after flags) by '*' or '$'
        p2 = _P(self.t)
        p2.i = self.i
        try:
            p2.flags()
        except ValueError:
            raise
        if p2.i < len(self.t) and self.t[p2.i] in "*$":
            raise ValueError("adjacent zom")

    def klass(self):
        assert self.peek() == "["
        self.i += 1
        neg = False
        if self.peek() == "!":
            neg = True
            self.i += 1
        arch = []

        def ch():
            c = self.peek()
            if c == "\\":
                n = self.t[self.i + 1:self.i + 2]
                if n and n in "[]-":
                    self.i += 2
                    return n
                raise ValueError("class escape")
            if c == "" or c in "[]-":
                return None
            self.i += 1
            return c

        while True:
            save = self.i
            a = ch()
            if a is None:
                self.i = save
                break
            if self.peek() == "-":
                save2 = self.i
                self.i += 1
                b = ch()
                if b is None:
                    self.i = save2
                    arch.append(("c", a))
                else:
                    arch.append(("r", a, b))
            else:
                arch.append(("c", a))
        if not arch or self.peek() != "]":
            raise ValueError("class")
        self.i += 1
        return ("class", neg, arch)


def parse(text):
    """Reference-side parse of a glob expression, or None."""
    if text == "":
        return []
    try:
        p = _P(text)
        ast = p.concat("")
        if p.i != len(text):
            return None
        return ast
    except (ValueError, IndexError):
        return None


# ---------------------------------------------------------------------------------------------
# normalisation: make the AST agree with how the printed text tokenises
# ---------------------------------------------------------------------------------------------

def normalize(ast, top=True):
    """Merges separators into adjacent tree wildcards, moves flags out of tree-wildcard tokens,
    merges adjacent literals; recursive."""
    items = []
    for it in ast:
        if it[0] == "alt":
            it = ("alt", [normalize(b, False) for b in it[1]])
        elif it[0] == "rep":
            it = ("rep", normalize(it[1], False), it[2])
        items.append(it)
    changed = True
    while changed:
        changed = False
        out = []
        i = 0
        while i < len(items):
            it = items[i]
            nxt = items[i + 1] if i + 1 < len(items) else None
            nxt2 = items[i + 2] if i + 2 < len(items) else None
            if it[0] == "sep" and nxt and nxt[0] == "tree" and not nxt[1]:
                out.append(("tree", True, nxt[2]))
                i += 2
                changed = True
            elif it[0] == "tree" and not it[2] and nxt and nxt[0] == "sep":
                out.append(("tree", it[1], True))
                i += 2
                changed = True
            elif it[0] == "sep" and nxt and nxt[0] == "flag" and nxt2 and nxt2[0] == "tree":
                out.extend([nxt, it])
                i += 2
                changed = True
            elif it[0] == "tree" and nxt and nxt[0] == "flag":
                # keep flags out of the tree token: move the flag in front of the tree
                out.extend([nxt, it])
                i += 2
                changed = True
            elif it[0] == "lit" and nxt and nxt[0] == "lit":
                out.append(("lit", it[1] + nxt[1]))
                i += 2
                changed = True
            else:
                out.append(it)
                i += 1
        items = out
    return items


def walk_items(ast):
    for it in ast:
        yield it
        if it[0] == "alt":
            for b in it[1]:
                yield from walk_items(b)
        elif it[0] == "rep":
            yield from walk_items(it[1])


def is_trivial(ast):
    return all(it[0] in ("lit", "sep", "flag") for it in walk_items(ast))


def nonflag(ast):
    return [it for it in ast if it[0] != "flag"]


def capturing_tokens(ast):
    """Top-level capturing tokens in expression order with byte spans (start, len) in show(ast)."""
    out = []
    pos = 0
    pending = 0  # flags written before a token belong to that token's span
    for it in ast:
        s = show([it])
        n = len(s.encode("utf-8"))
        if it[0] == "flag":
            pending += n
            continue
        if it[0] in ("one", "zom", "lazy", "tree", "class", "alt", "rep"):
            out.append((it, pos, n + pending))
        pos += n + pending
        pending = 0
    return out


# ---------------------------------------------------------------------------------------------
# generators
# ---------------------------------------------------------------------------------------------

LITS = ["a", "b", "A", "k", "é", ".", "-", " ", "金", "ab", "..", "a.b", "x", "*", "?", "{", "i"]
CLASSES = [
    (False, [("c", "a"), ("c", "b")]),
    (True, [("c", "a")]),
    (False, [("r", "a", "c")]),
    (False, [("c", "a"), ("c", "/")]),
    (True, [("c", "A"), ("r", "x", "z")]),
    (False, [("c", "A")]),
    (False, [("c", "."), ("c", "-")]),
    (False, [("c", "/")]),
    (True, [("c", "/")]),
    (False, [("c", "k"), ("c", "]")]),
    (True, [("r", "z", "a")]),       # descending ranges: no documented meaning (C01 counts them as
    (False, [("r", "c", "a")]),      # unspecified) but building and matching must stay total (C05)
    (True, [("c", "/"), ("r", "b", "a")]),
]
FORMS = [None, ":", (0, 1), (1,), (2,), (0, None), (1, None), (2, None), (0, 2), (1, 3), (2, 3),
         (1, 1), (0, 3), (3,)]
FLAGS = [("(?i)", True), ("(?-i)", False), ("(?i-i)", False), ("(?-ii)", True)]


def random_ast(rnd, max_items, nesting, top=True):
    n = rnd.randint(1, max_items)
    g = []
    for _ in range(n):
        r = rnd.random()
        if r < 0.13 and nesting > 0:
            g.append(("alt", [random_ast(rnd, 3, nesting - 1, False)
                              for _ in range(rnd.randint(1, 3))]))
        elif r < 0.24 and nesting > 0:
            g.append(("rep", random_ast(rnd, 3, nesting - 1, False), rnd.choice(FORMS)))
        elif r < 0.38:
            g.append(("tree", None, None))
        elif r < 0.50:
            g.append(("sep",))
        elif r < 0.58:
            g.append(("zom",))
        elif r < 0.61:
            g.append(("lazy",))
        elif r < 0.67:
            g.append(("one",))
        elif r < 0.76:
            neg, arch = rnd.choice(CLASSES)
            g.append(("class", neg, list(arch)))
        elif r < 0.83:
            t, ci = rnd.choice(FLAGS)
            g.append(("flag", t, ci))
        else:
            g.append(("lit", rnd.choice(LITS)))
    # decide tree spellings from position: a tree needs a leading '/' unless first, and a
    # trailing '/' unless last (other spellings do not parse)
    nf = [i for i, x in enumerate(g) if x[0] != "flag"]
    res = []
    for i, x in enumerate(g):
        if x[0] == "tree":
            pos = nf.index(i)
            lead = pos > 0 or (rnd.random() < 0.3)
            trail = pos < len(nf) - 1 or (rnd.random() < 0.1)
            x = ("tree", lead, trail)
        res.append(x)
    # a flag must not end a sub-expression
    while res and res[-1][0] == "flag":
        res.pop()
    if not nonflag(res):
        res.append(("lit", "a"))
    return normalize(res, top)


def _atoms_small():
    return [("lit", "a"), ("lit", "b"), ("lit", "k"), ("lit", "."), ("sep",), ("one",), ("zom",),
            ("class", False, [("c", "a"), ("c", "b")]), ("class", True, [("c", "a")]),
            ("flag", "(?i)", True), ("flag", "(?-i)", False)]


def _branches_small():
    A, B = [("lit", "a")], [("lit", "b")]
    return [
        ("alt", [A]), ("alt", [A, B]), ("alt", [A, [("lit", "b"), ("lit", "c")]]),
        ("alt", [[("zom",), ("lit", "a")], B]), ("alt", [[("lit", "a"), ("sep",), ("lit", "b")], B]),
        ("alt", [[("tree", False, True), ("lit", "a")], B]),
        ("alt", [[("lit", "a"), ("tree", True, False)], B]),
        ("alt", [[("lit", "a"), ("tree", True, True), ("lit", "b")]]),
        ("alt", [[("one",), ("lit", "b")]]),
        ("alt", [[("lit", "a"), ("sep",), ("lit", "b")]]),
        ("alt", [[("sep",), ("lit", "b")]]),
        ("rep", [("lit", "a"), ("sep",), ("lit", "b")], (1,)),
        ("rep", [("lit", "a"), ("sep",)], (2,)),
        ("rep", [("sep",), ("lit", "a")], (2,)),
        ("rep", A, None), ("rep", A, ":"), ("rep", A, (0, 1)), ("rep", A, (2,)), ("rep", A, (1, 2)),
        ("rep", A, (0, 2)), ("rep", A, (2, None)),
        ("rep", [("lit", "a"), ("sep",)], None), ("rep", [("lit", "a"), ("sep",)], (1, None)),
        ("rep", [("sep",), ("lit", "a")], (0, 2)), ("rep", [("sep",), ("lit", "a")], (1, None)),
        ("rep", [("one",)], (0, 1)), ("rep", [("one",)], (1, 2)),
        ("rep", [("lit", "a"), ("tree", True, False)], None),
        ("rep", [("lit", "a"), ("tree", True, False)], (0, 1)),
        ("rep", [("lit", "a"), ("tree", True, False)], (1, None)),
        ("rep", [("tree", False, True), ("lit", "b")], (1, 3)),
        ("rep", [("class", False, [("c", "a"), ("c", "b")])], (1, None)),
        ("rep", [("alt", [A, B])], (1, 2)),
        ("alt", [[("rep", A, (1, 2))], B]),
        ("alt", [[("alt", [A, [("tree", False, True), ("lit", "b")]])], B]),
    ]


def enum_small(max_items, with_branches=True):
    """All concatenations of up to max_items slots over the small atom set (+ tree wildcards in
    every spelling their position admits, + the small branch table)."""
    import itertools
    atoms = _atoms_small()
    if with_branches:
        atoms = atoms + _branches_small()
    for n in range(1, max_items + 1):
        slots = []
        for pos in range(n):
            ts = []
            leads = [True] if pos > 0 else [False, True]
            trails = [True] if pos < n - 1 else [False, True]
            for l in leads:
                for t in trails:
                    ts.append(("tree", l, t))
            slots.append(atoms + ts)
        for combo in itertools.product(*slots):
            if combo[-1][0] == "flag":
                continue
            yield normalize(list(combo))


_STR = re.compile(r'"((?:[^"\\]|\\.)*)"')


def corpus_texts(repo):
    """Every string literal in the repository's Rust sources, README and the properties file that
    could be a glob expression (the caller lets wax decide which of them build)."""
    texts = set()
    files = []
    for root, _, names in os.walk(os.path.join(repo, "src")):
        for n in names:
            if n.endswith(".rs"):
                files.append(os.path.join(root, n))
    for f in files:
        src = open(f, encoding="utf-8").read()
        for m in _STR.finditer(src):
            s = m.group(1)
            if len(s) > 60 or "\\n" in s or "{}" in s or "{:" in s:
                continue
            s = s.replace('\\\\', '\x00').replace('\\"', '"').replace('\x00', '\\')
            texts.add(s)
    readme = os.path.join(repo, "README.md")
    if os.path.exists(readme):
        for m in re.finditer(r"`([^`\n]{1,60})`", open(readme, encoding="utf-8").read()):
            texts.add(m.group(1))
    props = os.path.join(os.path.dirname(os.path.dirname(os.path.abspath(__file__))),
                         "properties.jsonl")
    if os.path.exists(props):
        for m in re.finditer(r"`([^`\n]{1,60})`", open(props, encoding="utf-8").read()):
            texts.add(m.group(1).replace("\\\\", "\\"))
    return sorted(texts)


EXTRA_CORPUS = [
    "", "**", "/**", "**/", "/**/", "a/**", "**/a", "/**/a", "a/**/b", "a/**/", "/a/**", "/",
    "/a", "a/", "a/b", "*", "/*", "*/", "?", "$", "*a", "a*", "a*b", "$a*", "*.rs", "**/*.rs",
    "(?i)a", "(?i)a[b]", "(?i)[a]", "(?i)k", "(?i)K[!a]", "(?-i)a(?i)b", "{a,b}", "{a}", "<a>",
    "<a:1>", "<a:1,>", "<a:0,2><b:1,>", "<a:2,3>", "<a/>", "<a/:1,>", "</a:1,>", "</a:2>*",
    "**/{a}", "**/{a,b}", "**/{a,bc}", "**/<a:1,2>", "/**/<b:1,>", "x/**/{?b}", "<a/**>",
    "<a/**:0,1>", "<?:0,1>/**", "a/**/{b,*.rs}", "{a/**,b}c", "<a/**:2>", "{.A{**/A}}ba",
    ".A{**/A}ba", "{bk<**/b:1,3>}", "a/{b,**/c}/d", "a/<**/b:1,>", "{a,b}/**", "{a/,b}",
    "../a", "./a", "a/../b", "a/./b", "..", ".", "{..,a}/b", "<../>a", "a/{.}/b",
    "[a]", "[!a]", "[a-c]", "[a/]", "[/]", "[!/]", "a[/]b", "[\\-]", "[\\]]", "[a\\-z]",
    "\\*", "\\?a", "a\\{b", "é", "金", "a b", "(?i)é", "(?i)金",
    "a/**/b/**/c", "**/a/**", "/**/{var,.var}/**/*.log", "(?-i)photos/**/*.(?i){jpg,jpeg}",
    "<[!.]*/>[!.]*", "{*.{go,rs}}", "<<a:1,2>b:1,2>", "{a,{b,{c,d}}}", "a{b,c}d", "a<b:0,1>c",
    "*{a,b*}", "{a*,b}", "a/<b/**:1,>", "$-*.*", "(?i)a/(?-i)b", "{(?i)a,b}c", "a{/b,/c}",
    "a/{b/,c/}d", "<a/b/:1,2>c", "{a/b}c*", "<a/b:1>c*", "{a/b}/c", "<a/:2>b*", "a{/b}c*", "{a/b}c/*",
    "x/{a/b}c?", "<a/:2>b/*", "{a/b}{c}*", "{src/bin,tests}/*.rs", "src/{bin/*,lib}.rs", "<*/:1,2>*.rs",
    "{a/b,c}/*", "a/{b/c,d}/*", "<a/:1,2>b", "x/{a/**,b}", "{a/**,b}/c", "<a/b:2>/*", "<*/*/:1,>*", "a/<*/*/:1,>*", "<*/*/>", "<*/*/:2,>*", "<*/*/*/:1,>*", "<*/>*", "<*/:1,>*", "<*/*/>*",
    "<*/*/:1,3>*", "<a/*/:1,>*", "<*/:2,>", "<*/*/:1,>", "[!z-a]", "[z-a]", "src/[!9-0]*.rs", "{a,b/[!z-a]}", "<[!b-a]:1,3>",
    "<</a:1,>:0,>b", "<{</a:1,>,</b:1,>}:0,>", "<</a:1,>>b", "<</a:1,>:0,1>b", "{</a:1,>,b}", "<</**/a:1,>:0,>b",
    "<{/a,/b}:1,>", "<</a:1,2>:0,2>", "/{a,b}", "/<a:1,>", "{a,b}{c,d}", "<a:1,2><b:0,1>",
    "<a{*/,*/*/}>*", "<a{*/,*/*/}:1,>*", "<a<*/:0,2>>*", "a{*/,*/*/}", "[a&&b]", "[a&]", "[&&]", "[a~~b]", "[!a&&b]",
    "[+-9]", "v[+-9]<[0-9]:1,>", "[ -~]", "**/*.[+-9]", "x<a:0,1>", "{a<b:0,1>,ab}", "a/<b/:0,1>c",
    "{{a/**,*.rs},{*.pdf,*.tex}}", "{a,{b,c},{d,{e,f}}}", "a/.(?i)./b", "{a,.(?i).}", "**/.(?-i).",
    "(?i)PKG/*/lib.rs", "(?i)a/*/*", "日本/**/*.txt", "é/金/*[a]",
]


def depth_varying_tokens():
    """Tokens whose matches span a varying number of components (for the depth / exhaustiveness /
    partition folds, whose terms combine non-commutatively across separators)."""
    L = lambda t: [("lit", t)]
    S = ("sep",)
    return [
        [("alt", [L("a"), L("a") + [S] + L("b")])],                       # {a,a/b}
        [("alt", [L("a") + [S], L("a") + [S] + L("b") + [S]])],           # {a/,a/b/}
        [("alt", [L("c"), L("c") + [S] + L("d")])],                       # {c,c/d}
        [("alt", [[S] + L("c"), [S] + L("c") + [S] + L("d")])],           # {/c,/c/d}
        [("rep", L("a") + [S], (1, 2))],                                  # <a/:1,2>
        [("rep", L("a") + [S], (0, 1))],                                  # <a/:0,1>
        [("rep", [S] + L("a"), (1, 2))],                                  # </a:1,2>
        [("alt", [L("a"), [("zom",)] + [S] + L("b")])],                   # {a,*/b}
        [("alt", [L("a") + [S] + L("b")])],                               # {a/b}
        L("x"),
        [("zom",)],
    ]


def enum_depth_pairs(triples=False):
    toks = depth_varying_tokens()
    glues = [[], [("sep",)]]
    leads = [[], [("sep",)], [("tree", False, True)]]     # relative, rooted, behind a tree wildcard
    for x in toks:
        for g in glues:
            for y in toks:
                for lead in leads:
                    yield normalize(lead + x + g + y)
                    # closed by a literal: a trailing separator inside y then ends a component
                    yield normalize(lead + x + g + y + [("lit", "z")])
                if triples:
                    for g2 in glues:
                        for z in toks[:6]:
                            yield normalize(x + g + y + g2 + z)


def enum_flag_family():
    """Case flags before, between and inside branches (the encoder emits flags per literal and the
    regex flag state flows into groups; the parser threads flags textually through branches)."""
    fl = [None, ("flag", "(?i)", True), ("flag", "(?-i)", False)]
    L = lambda t: [("lit", t)]
    mids = [
        L("b"),
        [("alt", [L("b"), L("c")])],
        [("alt", [[("flag", "(?-i)", False)] + L("b"), L("c")])],
        [("alt", [[("flag", "(?i)", True)] + L("b"), L("c")])],
        [("alt", [[("alt", [L("b")])]])],
        [("rep", L("b"), (1, 2))],
        [("rep", [("flag", "(?-i)", False)] + L("b"), (1,))],
        [("rep", [("flag", "(?i)", True)] + L("b"), (1, 2))],
        [("class", False, [("c", "b"), ("c", "c")])],
        [("alt", [L("b") + [("sep",)] + L("c"), L("d")])],
    ]
    for f1 in fl:
        for f2 in fl:
            for mid in mids:
                for f3 in fl:
                    g = ([f1] if f1 else []) + L("a") + ([f2] if f2 else []) + mid + ([f3] if f3 else []) + L("k")
                    yield normalize(g)


def enum_rule_family():
    """Expressions around the documented rules (C06): a branch token (alternation / repetition,
    nested up to two levels) whose terminals are or are not component boundaries, placed only /
    first / middle / last in a concatenation next to neighbours that do or do not start / end with a
    boundary. Most of these must be rejected by the rule checker; the ones that build are checked at
    language level. The family is what makes a loosened rule visible: an expression that used to be
    rejected now builds, and its language contains adjacent separators or is rooted only sometimes."""
    L = lambda t: [("lit", t)]
    S = ("sep",)
    T_ = lambda l, t: ("tree", l, t)
    # branch bodies by what their edges are
    starts = [[], [S], [T_(False, True)], [T_(True, True)]]       # -, /, **/, /**/
    ends = [[], [S], [T_(True, False)]]                           # -, /, /**
    bodies = [st + L("a") + en for st in starts for en in ends]
    bodies += [[("zom",)] + L("a"), L("a") + [("zom",)]]          # *a, a*
    plain = L("b")

    def branches():
        for x in bodies:
            yield ("alt", [x, plain])
            yield ("alt", [plain, x])
            yield ("alt", [plain, L("c"), x])
            yield ("alt", [x])
            for form in (None, (1, None), (0, 1), (2,), (1, 2), (1,)):
                yield ("rep", x, form)
        # nested: the offending body one level further down
        for x in bodies[1:]:
            yield ("alt", [[("alt", [x, plain])] + L("c"), L("d")])          # {{x,b}c,d}
            yield ("alt", [L("c") + [("alt", [x, plain])], L("d")])          # {c{x,b},d}
            yield ("alt", [L("d"), [("alt", [plain, x])]])                   # {d,{b,x}}
            yield ("rep", [("alt", [x, plain])], (1, None))                  # <{x,b}:1,>
            yield ("alt", [[("rep", x, (1, 2))], plain])                     # {<x:1,2>,b}
            yield ("rep", [("rep", x, (1, 2))] + L("c"), (0, 1))             # <<x:1,2>c:0,1>
    EF = ("alt", [L("e"), L("f")])
    lefts = [[], L("x"), L("x") + [S], [S], [T_(False, True)], L("x") + [T_(True, True)], [("zom",)],
             L("x") + [("alt", [L("e"), L("f") + [S]])],
             # unrelated context further away (the checker's neighbour context is shared state)
             L("g") + [EF] + [("alt", [L("e"), L("f") + [S]])]]
    rights = [[], L("y"), [S] + L("y"), [S], [T_(True, False)], [T_(True, True)] + L("y"), [("zom",)],
              [("alt", [L("e"), [S] + L("f")])], L("y") + [EF],
              [("alt", [L("e"), [S] + L("f")])] + [EF] + L("g"),
              [("alt", [[S] + L("c"), L("d")])] + [EF],
              [("alt", [[("zom",)] + L("e"), L("f")])] + L("g")]
    lefts.append(L("g") + [("alt", [L("e") + [("zom",)], L("f")])])
    seen = set()
    for b in branches():
        for l in lefts:
            for r in rights:
                g = l + [b] + r
                t = show(g)
                if t in seen:
                    continue
                seen.add(t)
                yield g


def enum_exhaustive_family():
    """Open-ended repetitions and alternations of bounded-depth bodies next to trailing wildcards:
    the shapes on which the exhaustiveness and depth folds sum, multiply and reset terms."""
    L = lambda t: [("lit", t)]
    S = ("sep",)
    Z = ("zom",)
    comp = [Z, S]
    bodies = [
        comp, comp + comp, L("a") + comp,
        L("a") + [("alt", [comp, comp + comp])],                  # a{*/,*/*/}
        L("a") + [("rep", comp, (0, 2))],                         # a<*/:0,2>
        [("alt", [comp, comp + comp])],                           # {*/,*/*/}
        L("a") + [("tree", True, False)],                         # a/**
        L("a") + [S] + [("alt", [L("b"), L("b") + [S] + L("c")])],  # a/{b,b/c}
        [("alt", [L("a") + [S], L("b") + [("tree", True, True)]])],
    ]
    forms = [None, (1, None), (0, 2), (2, None), (1, 2)]
    prefixes = [[], L("x"), L("x") + [S], [("tree", False, True)]]
    suffixes = [[], [Z], L("y"), [Z] + L(".rs")]
    for pre in prefixes:
        for b in bodies:
            for f in forms:
                for suf in suffixes:
                    yield normalize(pre + [("rep", b, f)] + suf)
            for suf in suffixes:
                yield normalize(pre + [("alt", [b, L("k")])] + suf)


def enum_invariant_nesting_family():
    """Invariant text assembled from nested groups that contain separators (the text fold joins
    fragments across group boundaries; partition and the walk anchor are derived from it)."""
    L = lambda t: [("lit", t)]
    S = ("sep",)
    bc = L("b") + [S] + L("c")
    heads = [
        [("alt", [L("a") + [S] + [("alt", [bc])]])],                  # {a/{b/c}}
        [("alt", [L("a") + [S] + [("rep", bc, (2,))]])],              # {a/<b/c:2>}
        [("rep", L("a") + [S] + [("alt", [bc])], (1,))],              # <a/{b/c}:1>
        [("alt", [[("alt", [L("a") + [S] + L("b")])] + [S] + L("c")])],  # {{a/b}/c}
        L("a") + [S] + [("alt", [L("b") + [S] + [("alt", [L("c") + [S] + L("d")])]])],  # a/{b/{c/d}}
        [("alt", [L("p") + [S] + [("rep", L("s") + [S] + L("l"), (2,))]])],             # {p/<s/l:2>}
        [("rep", [("rep", L("a") + [S], (2,))] + L("b"), (1,))],      # <<a/:2>b:1>
        L("x") + [("alt", [[S] + L("a") + [("alt", [[S] + L("b")])]])],                   # x{/a{/b}}
    ]
    tails = [[], [S] + [("zom",)], L("k") + [("zom",)], [S] + [("zom",)] + L(".txt"), [S] + L("y"), [("zom",)]]
    leads = [[], [S], L("r") + [S]]
    for lead in leads:
        for h in heads:
            for t in tails:
                yield normalize(lead + h + t)
