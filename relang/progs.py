"""Program sets (DESIGN.md section 3.2): enumerated small derivations + fixed corpus + seeded random
derivations, each pushed through the real Glob::new by waxprobe."""
import random

import gen
from core import REPO, probe, tier, seed, Inconclusive


def program_asts(max_random=None, small=None, rnd_items=None, rnd_nesting=None):
    """dict text -> ast (ast may be None for corpus strings the reference parser rejects)."""
    t = tier()
    rnd = random.Random(seed())
    progs = {}

    def add(ast):
        text = gen.show(ast)
        if text not in progs:
            progs[text] = ast

    # fixed corpus (strings): parse on the reference side
    for text in list(gen.EXTRA_CORPUS) + gen.corpus_texts(REPO):
        if text not in progs:
            ast = gen.parse(text)
            if ast is not None and gen.show(ast) != text:
                ast = None
            progs[text] = ast
    # enumerated small derivations
    if small is None:
        small = "quick" if t == "quick" else "thorough"
    if small == "quick":
        for ast in gen.enum_small(2, True):
            add(ast)
        for ast in gen.enum_small(3, False):
            add(ast)
    elif small == "thorough":
        for ast in gen.enum_small(2, True):
            add(ast)
        for ast in gen.enum_small(3, False):
            add(ast)
        # the full three-slot enumeration with branches (~120k texts) and the four-slot one without
        # (~50k) are sampled (seeded): the whole would take hours per check
        big = list(gen.enum_small(3, True))
        for ast in rnd.sample(big, min(len(big), 15000)):
            add(ast)
        big = list(gen.enum_small(4, False))
        for ast in rnd.sample(big, min(len(big), 8000)):
            add(ast)
    # pairs (thorough: triples) of depth-varying tokens, with and without a separator in between
    for ast in gen.enum_depth_pairs(triples=(small == "thorough")):
        add(ast)
    for ast in gen.enum_flag_family():
        add(ast)
    for ast in gen.enum_exhaustive_family():
        add(ast)
    for ast in gen.enum_invariant_nesting_family():
        add(ast)
    # seeded random derivations
    if max_random is None:
        max_random = 2000 if t == "quick" else 10000
    items = rnd_items or (6 if t == "quick" else 7)
    nest = rnd_nesting or 3
    tries = 0
    n0 = len(progs)
    while len(progs) - n0 < max_random and tries < max_random * 20:
        tries += 1
        add(gen.random_ast(rnd, items, nest))
    return progs


def consistent(ast, row):
    """Structural agreement between the reference-side AST and what wax reports: the capturing
    top-level tokens (index, byte span). Disagreement means the two parsers tokenise the text
    differently; such programs are excluded from AST-based checks (never an alarm)."""
    if ast is None:
        return False
    mine = [(i + 1, s, n) for i, (_, s, n) in enumerate(gen.capturing_tokens(ast))]
    theirs = [tuple(c) for c in row.get("caps", [])]
    return mine == theirs


def load(routes=False, **kw):
    """Returns (records, stats). record = dict(text, ast, row, ast_ok)."""
    asts = program_asts(**kw)
    texts = list(asts)
    rows = probe([{"op": "glob", "e": t, "routes": routes} for t in texts])
    recs = []
    stats = {"generated": len(texts), "built": 0, "rejected": 0, "panicked": 0, "aborted": 0,
             "ast_ok": 0, "untranslatable": 0}
    panics = []
    for t, row in zip(texts, rows):
        if row is None:
            raise Inconclusive("probe returned nothing for %r" % t)
        if row.get("panic"):
            stats["panicked"] += 1
            panics.append({"e": t, "msg": row.get("msg"), "loc": row.get("loc")})
            continue
        if row.get("abort"):
            stats["aborted"] += 1
            panics.append({"e": t, "abort": True})
            continue
        if not row.get("ok"):
            stats["rejected"] += 1
            continue
        stats["built"] += 1
        if "smt" not in row or not row.get("anchored"):
            stats["untranslatable"] += 1
            continue
        ast = asts[t]
        ok = consistent(ast, row)
        if not ok:
            # the generator's AST does not tokenise like wax (e.g. a flag it placed next to a tree
            # wildcard): fall back to the reference-side parse of the printed text
            alt = gen.parse(t)
            if alt is not None and gen.show(alt) == t and consistent(alt, row):
                ast, ok = alt, True
        stats["ast_ok"] += ok
        recs.append({"text": t, "ast": ast, "row": row, "ast_ok": ok})
    stats["distinct_patterns"] = len({r["row"]["re"] for r in recs})
    stats["nontrivial"] = len({r["row"]["re"] for r in recs
                               if r["ast"] is None or not gen.is_trivial(r["ast"])})
    return recs, stats, panics
