"""C02 -- walking a glob yields exactly the files whose relative path matches.
Engine A: pruning by the real per-component programs never loses a match (language lemma).
Engine B: one feed() step of the real GlobWalker closure on a table of concrete path shapes."""
import os
import sys

import progs
import roles as R
from core import (probe, member, inter, diff, cat, union, loop, lit, SEP, EPS, tier, main_wrapper,
                  Inconclusive)
from session import Session

sys.path.insert(0, os.path.join(os.path.dirname(os.path.abspath(__file__)), "..", "kanidrv"))


def run():
    ses = Session("C02")
    rep = ses.rep
    recs, stats, _ = progs.load()
    tasks = []
    info = {}
    with_comps = 0
    for i, r in enumerate(recs):
        row = r["row"]
        comps = row["comps"]
        # a re-owned glob must walk with the same component programs and from the same directory
        if "comps_owned" in row and ([c["re"] for c in comps] != row["comps_owned"] or
                                     (row["anchor"]["root"], row["anchor"]["pivot"]) !=
                                     (row["anchor"]["owned_root"], row["anchor"]["owned_pivot"])):
            rep.candidate({"re-owned-glob-walks-differently"},
                          {"short": {"program": r["text"], "component_programs": [c["re"] for c in comps][:4],
                                     "after_into_owned": row["comps_owned"][:4], "anchor": row["anchor"]}})
        if not comps or any("smt" not in c or not c.get("anchored") for c in comps):
            continue
        with_comps += 1
        rooted = row["root"] == "Always"
        shape = "CANONABS" if rooted else "CANONREL"
        lead = SEP if rooted else EPS
        L = inter(row["smt"], shape)
        info[i] = r
        for j, c in enumerate(comps):
            # a matching path whose component j is rejected by component program j
            bad = cat(lead, loop(cat("C1", SEP), j, j), diff("C1", c["smt"]), loop(cat(SEP, "C1"), 0, None))
            tasks.append((("prune", i, j), member(inter(L, bad))))
        k = len(comps)
        # a matching path with fewer components than there are component programs
        if k >= 2:
            short = cat(lead, "C1", loop(cat(SEP, "C1"), 0, k - 2))
            tasks.append((("short", i, k), member(inter(L, short))))
        if rooted and k >= 1:
            tasks.append((("short", i, 0), member(inter(L, SEP))))
    # anchor: the directory the walk starts from (real Glob::anchor through the hook, base "B0") must
    # lie above every match, and the pivot must be the number of prefix components
    arows = probe([{"op": "anchor", "e": r["text"], "base": "B0"} for r in recs])
    anchored = 0
    for i, (r, ar) in enumerate(zip(recs, arows)):
        if not ar or not ar.get("ok"):
            continue
        root, pivot = ar["root"], ar["pivot"]
        rooted = r["row"]["root"] == "Always"
        ast = r["ast"] if r["ast_ok"] else None
        if R.separator_class(ast):
            continue   # a class listing the separator is taken for the separator (known, C08)
        if rooted and not root.startswith("/"):
            rs = {"rooted-glob-walks-from-base"}
            if R.root_in_nested_branch(ast):
                rs.add("root-in-nested-branch")
            rep.candidate(rs, {"short": {"program": r["text"], "has_root": "Always", "walk_root": root}})
            continue
        if rooted:
            prefix = root
        elif root == "B0":
            prefix = ""
        elif root.startswith("B0/"):
            prefix = root[3:]
        else:
            rep.candidate({"anchor-not-below-base"}, {"short": {"program": r["text"], "walk_root": root}})
            continue
        comps = [c for c in prefix.split("/") if c]
        if any(c in (".", "..") for c in comps):
            continue   # native components: canonical paths cannot express them
        want_pivot = len(comps) + (1 if rooted else 0)
        if pivot != want_pivot:
            rep.candidate({"pivot-is-not-prefix-depth"},
                          {"short": {"program": r["text"], "walk_root": root, "pivot": pivot,
                                     "prefix_components": len(comps), "rooted": rooted}})
        if not comps:
            continue
        anchored += 1
        info.setdefault(i, r)
        canon = ("/" if rooted else "") + "/".join(comps)
        shape = "CANONABS" if rooted else "CANONREL"
        below = union(lit(canon), cat(lit(canon), SEP, "CANONREL"))
        tasks.append((("anchor", i, canon), member(diff(inter(r["row"]["smt"], shape), below))))
    res = ses.solve(tasks)
    wit = []
    for key, (status, w, _) in res.items():
        if status in ("unknown", "error"):
            rep.undecided_add({"program": info[key[1]]["text"], "clause": key[0], "why": w})
        elif status == "sat":
            wit.append((key, w))
    for key, w in wit:
        kind, i, j = key
        r = info[i]
        m = ses.replay_match([({"glob": r["text"]}, w)])[0]["m"]
        comps_w = [c for c in w.split("/") if c]
        if kind == "anchor":
            if not m or w == j or w.startswith(j + "/"):
                raise Inconclusive("anchor witness %r for %r does not reproduce" % (w, r["text"]))
            rep.candidate({"match-outside-walk-root"},
                          {"short": {"program": r["text"], "walk_starts_at": j, "matching_path_not_below_it": w}})
            continue
        if kind == "prune":
            cm = probe([{"op": "match", "target": {"re": r["row"]["comps"][j]["re"]}, "paths": [comps_w[j]]}])[0]["results"][0]["m"]
            if not m or cm:
                raise Inconclusive("pruning witness %r for %r does not reproduce" % (w, r["text"]))
            rep.candidate({"component-program-rejects-component-of-a-match"},
                          {"short": {"program": r["text"], "path": w, "component_index": j,
                                     "component_program": r["row"]["comps"][j]["re"], "component": comps_w[j]}})
        else:
            if not m or len(comps_w) >= len(r["row"]["comps"]):
                raise Inconclusive("short-path witness %r for %r does not reproduce" % (w, r["text"]))
            rs = {"match-shorter-than-component-programs"}
            if r["ast_ok"] and R.has_nullable_component(r["ast"]):
                rs.add("open-component-matched-by-nothing")
            rep.candidate(rs,
                          {"short": {"program": r["text"], "path": w, "components": len(comps_w),
                                     "component_programs": len(r["row"]["comps"])}})
    for i in list(info)[:800:80]:
        r = info[i]
        rep.sample({"program": r["text"], "component_programs": [c["re"] for c in r["row"]["comps"]],
                    "obligation": "forall canonical s in L(glob), forall j < k: component j of s in L(c_j); s has at least k components"})
    import runprop
    kcov, kinc = runprop.run_kani_part("C02", rep)
    rep.assumptions += [
        "the component programs are read through a hook that repeats the call site of walk_with_behavior (same function, same empty-glob special case)",
        "canonical paths (no '.'/'..' components), relative for unrooted globs and rooted for rooted globs",
        "walkdir delivers every entry of every non-skipped directory exactly once, parents before children (environment contract); cancellation itself is C13",
    ]
    return ses.finish(with_comps, {"programs_total": len(recs), "programs_with_component_programs": with_comps,
                                   "programs_with_walk_prefix": anchored,
                                   "generated": stats, "kani": kcov,
                                   "functions_encoded": ["WalkProgram::compile", "Token::components",
                                                          "Token::has_boundary", "encode::compile",
                                                          "GlobWalker::walk_with_behavior closure (Kani)"]},
                      inconclusive=kinc)


if __name__ == "__main__":
    main_wrapper(run)
