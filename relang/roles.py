"""Roles: syntactic classes of programs (computed from the generator's AST) and witness shapes used
to attribute a reproduced counterexample to a listed known finding (DESIGN.md 1.4). A role never
decides whether something is a counterexample -- only whether an already replayed counterexample is
one that known_findings.json lists."""
import gen
from gen import rep_bounds


def tree_at_branch_edge(ast):
    """Some tree wildcard is the first or last token of an alternation branch / repetition body."""
    def rec(g, nested):
        items = gen.nonflag(g)
        for i, it in enumerate(items):
            if it[0] == "tree" and nested and (i == 0 or i == len(items) - 1):
                return True
            if it[0] == "alt" and any(rec(b, True) for b in it[1]):
                return True
            if it[0] == "rep" and rec(it[1], True):
                return True
        return False
    return ast is not None and rec(ast, False)


def rooted_leading_tree(ast):
    """First top-level token is a rooted tree wildcard followed by more tokens (`/**/x`)."""
    if not ast:
        return False
    items = gen.nonflag(ast)
    return len(items) > 1 and items[0][0] == "tree" and items[0][1]


def tree_then_bounded_branch(ast):
    """Some tree wildcard is directly followed, as the last token of its concatenation, by an
    alternation or repetition (the exhaustiveness fold looks no further than the tree wildcard)."""
    def rec(g):
        items = gen.nonflag(g)
        for i, it in enumerate(items):
            if it[0] == "tree" and i + 1 < len(items) and items[i + 1][0] in ("alt", "rep"):
                return True
            if it[0] == "alt" and any(rec(b) for b in it[1]):
                return True
            if it[0] == "rep" and rec(it[1]):
                return True
        return False
    return ast is not None and rec(ast)


def _contains_tree(it):
    return it[0] == "tree" or any(x[0] == "tree" for x in gen.walk_items([it]))


def has_branch_after_tree(ast):
    """A token that is or contains a tree wildcard is followed, later in the same concatenation, by
    an alternation or repetition."""
    def rec(g):
        items = gen.nonflag(g)
        seen_tree = False
        for it in items:
            if it[0] in ("alt", "rep"):
                if seen_tree:
                    return True
                if it[0] == "alt" and any(rec(b) for b in it[1]):
                    return True
                if it[0] == "rep" and rec(it[1]):
                    return True
            if _contains_tree(it):
                seen_tree = True
        return False
    return ast is not None and rec(ast)


def ends_with_repetition(ast):
    """The last token of the expression (looking through alternation branches) is a repetition."""
    def rec(g):
        items = gen.nonflag(g)
        if not items:
            return False
        last = items[-1]
        if last[0] == "rep":
            return True
        if last[0] == "alt":
            return any(rec(b) for b in last[1])
        return False
    return ast is not None and rec(ast)


def _nullable(it):
    k = it[0]
    if k in ("zom", "lazy"):
        return True
    if k == "rep":
        lo, _ = rep_bounds(it[2])
        return lo == 0 or all(_nullable(x) for x in gen.nonflag(it[1]))
    if k == "alt":
        return any(all(_nullable(x) for x in gen.nonflag(b)) for b in it[1])
    return False


def has_nullable_component(ast):
    """Some component (run of tokens between separators / tree wildcards / the ends of its
    concatenation, at any nesting depth) consists only of tokens that can match the empty string
    (`/*`, `$/x`, `a/<b:0,1>/c`, `</*:1>`, `/**/{*/**}`)."""
    if not ast:
        return False

    def rec(g):
        seg = []
        segs = []
        for it in gen.nonflag(g):
            if it[0] in ("sep", "tree"):
                segs.append(seg)
                seg = []
            else:
                seg.append(it)
        segs.append(seg)
        if any(s and all(_nullable(x) for x in s) for s in segs):
            return True
        for it in gen.nonflag(g):
            if it[0] == "alt" and any(rec(b) for b in it[1]):
                return True
            if it[0] == "rep" and rec(it[1]):
                return True
        return False
    return rec(ast)


def plain_tree_tail(ast):
    """The last top-level token is a tree wildcard (`x/**`, `**`): the form for which the
    exhaustiveness verdict is expected to be exact."""
    items = gen.nonflag(ast) if ast else []
    return bool(items) and items[-1][0] == "tree"


def root_in_nested_branch(ast):
    """A separator or rooted tree wildcard begins a branch nested at least two levels deep, or a
    repetition body (the rule checker's rootedness check is context-dependent there)."""
    def rec(g, depth):
        items = gen.nonflag(g)
        if depth >= 1 and items and (items[0][0] == "sep" or (items[0][0] == "tree" and items[0][1])):
            return True
        for it in items:
            if it[0] == "alt" and any(rec(b, depth + 1) for b in it[1]):
                return True
            if it[0] == "rep" and rec(it[1], depth + 1):
                return True
        return False
    return ast is not None and rec(ast, 0)


def class_under_case_flag(ast):
    """A character class appears while a case-insensitive flag is in force (textual order)."""
    ci = [False]

    def rec(g):
        for it in g:
            if it[0] == "flag":
                ci[0] = it[2]
            elif it[0] == "class" and ci[0]:
                return True
            elif it[0] == "alt" and any(rec(b) for b in it[1]):
                return True
            elif it[0] == "rep" and rec(it[1]):
                return True
        return False
    return ast is not None and rec(ast)


def lone_rooted_tree(ast):
    items = gen.nonflag(ast) if ast else []
    return len(items) == 1 and items[0][0] == "tree" and items[0][1]


def ast_roles(ast):
    out = set()
    if ast is None:
        return out
    for name, fn in (("tree-at-branch-edge", tree_at_branch_edge),
                     ("rooted-leading-tree", rooted_leading_tree),
                     ("tree-then-branch", tree_then_bounded_branch),
                     ("root-in-nested-branch", root_in_nested_branch),
                     ("class-under-case-flag", class_under_case_flag),
                     ("lone-rooted-tree", lone_rooted_tree)):
        if fn(ast):
            out.add(name)
    return out


def separator_class(ast):
    """Some character class lists the separator."""
    return ast is not None and any(
        it[0] == "class" and any((a[0] == "c" and a[1] == "/") or (a[0] == "r" and a[1] <= "/" <= a[2])
                                 for a in it[2]) for it in gen.walk_items(ast))


def flag_at_partition_cut(ast):
    """A flag is written (at top level) before the first variant token, i.e. at or before the
    point where partition cuts the expression text."""
    if not ast:
        return False
    ci = False
    seen_flag = False
    for it in ast:
        if it[0] == "flag":
            seen_flag = True
            ci = it[2]
            continue
        sep_class = it[0] == "class" and not it[1] and all(a[0] == "c" and a[1] == "/" for a in it[2])
        variant = (it[0] not in ("lit", "sep") and not sep_class) or \
                  (it[0] == "lit" and ci and any(c.lower() != c.upper() for c in it[1]))
        if variant:
            return seen_flag
    return seen_flag


def patch_rooted_leading_tree(pattern):
    """Term patch for KF-rooted-tree-partial-component: the encoding a rooted leading tree wildcard
    (`[/].*[/]?`, wherever the encoder emitted it: at top level or as the first token of a leading
    branch) would have if it matched whole components only. None if the pattern has no such piece."""
    piece = "[/].*[/]?"
    if piece not in pattern:
        return None
    return pattern.replace(piece, "[/](?:.*[/])?")


def _sup_class(pos):
    return {"first": "first", "middle": "mid", "last": "last", "only": "top", None: "top"}[pos]


def _position(i, n):
    if n == 1:
        return "only"
    if i == 0:
        return "first"
    if i == n - 1:
        return "last"
    return "middle"


def edge_tree_signatures(ast):
    """For every tree wildcard that is the first/last/only token of its concatenation: (its position
    in that concatenation, the position class of its OUTERMOST enclosing branch in the top-level
    concatenation -- what the encoder calls superposition --, leading separator). The known
    superposition finding is exactly: the encoding of such a tree wildcard is a function of this
    signature instead of what actually surrounds it. Two related expressions whose corresponding
    tree wildcards have the same signatures must therefore still agree."""
    out = set()

    def rec(g, sup):
        items = gen.nonflag(g)
        n = len(items)
        for i, it in enumerate(items):
            pos = _position(i, n)
            if it[0] == "tree" and pos != "middle":
                out.add((pos, _sup_class(sup), bool(it[1])))
            elif it[0] == "alt":
                for b in it[1]:
                    rec(b, sup if sup is not None else pos)
            elif it[0] == "rep":
                rec(it[1], sup if sup is not None else pos)
    if ast is not None:
        rec(ast, None)
    return out


def superposition_explains(lhs_asts, rhs_asts):
    """True iff the edge tree wildcards of the two sides have different signatures (so the known
    superposition finding can explain a disagreement between them)."""
    if any(a is None for a in list(lhs_asts) + list(rhs_asts)):
        return any(tree_at_branch_edge(a) for a in list(lhs_asts) + list(rhs_asts) if a is not None)
    left = set()
    for a in lhs_asts:
        left |= edge_tree_signatures(a)
    right = set()
    for a in rhs_asts:
        right |= edge_tree_signatures(a)
    return left != right


def ends_with_separator(ast):
    items = gen.nonflag(ast) if ast else []
    return bool(items) and (items[-1][0] == "sep" or
                            (items[-1][0] == "alt" and any(ends_with_separator(b) for b in items[-1][1])))


def exhaustive_heuristic_family(ast):
    """The syntactic families in which is_exhaustive() is known to answer Always wrongly: a tree
    wildcard followed by an alternation/repetition in the same concatenation, a closing repetition,
    a trailing separator. (A pattern outside these families that wrongly reports Always is a new
    violation.)"""
    return ast is not None and (has_branch_after_tree(ast) or ends_with_repetition(ast)
                                or ends_with_separator(ast) or tree_inside_repetition(ast))


def tree_inside_repetition(ast):
    """Some repetition body contains a tree wildcard (`<a/**>*`, `<a/**:0,1>{a}`)."""
    return ast is not None and any(it[0] == "rep" and any(x[0] == "tree" for x in gen.walk_items(it[1]))
                                   for it in gen.walk_items(ast))


def has_nullable_top_component(ast):
    """A top-level component consists only of tokens that can match the empty string."""
    if not ast:
        return False
    seg, segs = [], []
    for it in gen.nonflag(ast):
        if it[0] in ("sep", "tree"):
            segs.append(seg)
            seg = []
        else:
            seg.append(it)
    segs.append(seg)
    return any(s and all(_nullable(x) for x in s) for s in segs)


def sometimes_rooted_context_leak(ast):
    """The known C06 context leak (KF-sometimes-rooted-glob): a separator or rooted tree wildcard
    begins a branch that is nested at least two levels deep and lies at the very start of the
    expression (every enclosing branch token is the first token of its concatenation). A rooting
    boundary at the start of a *top-level* branch (`{/a,b}`, `</a:0,1>b`) is outside this class."""
    def rec(g, depth):
        items = gen.nonflag(g)
        if not items:
            return False
        first = items[0]
        if depth >= 2 and (first[0] == "sep" or (first[0] == "tree" and first[1])):
            return True
        if first[0] == "alt":
            return any(rec(b, depth + 1) for b in first[1])
        if first[0] == "rep":
            return rec(first[1], depth + 1)
        return False
    return ast is not None and rec(ast, 0)


def boundary_at_nested_branch_edge(ast):
    """The known C06 weakness (KF-rule-nested-branch-edges): a branch nested at least two levels deep
    (an alternation branch or repetition body inside another branch) begins or ends with a component
    boundary (separator or tree wildcard), or consists of one. The rule checker compares the
    terminals of such a branch with a neighbour context that is shared by the whole breadth-first
    traversal, so its verdict there depends on unrelated parts of the expression. Branches at the top
    level of the expression are outside this class."""
    def edge(g):
        items = gen.nonflag(g)
        return bool(items) and (items[0][0] in ("sep", "tree") or items[-1][0] in ("sep", "tree"))

    def rec(g, depth):
        for it in gen.nonflag(g):
            subs = it[1] if it[0] == "alt" else ([it[1]] if it[0] == "rep" else [])
            for b in subs:
                if depth + 1 >= 2 and edge(b):
                    return True
                if rec(b, depth + 1):
                    return True
        return False
    return ast is not None and rec(ast, 0)
