"""Common scaffolding of an engine-A check run."""
import random

from core import (Report, SolverPool, build_probe, probe, translator_selftest, cross_check_unsat,
                  tier, seed, Inconclusive)


class Session:
    def __init__(self, pid, level="translation_validation"):
        self.rep = Report(pid, level)
        self.build_s = build_probe()
        self.pool = SolverPool()
        self.rnd = random.Random(seed())
        self.n_self = translator_selftest(self.pool)
        self.replayed = 0
        self.patch_undecided = set()
        self.rep.assumptions += [
            "paths are all strings over Unicode scalar values U+0000..U+2FFFF (the SMT-LIB alphabet), of any length; U+30000..U+10FFFF and non-UTF-8 OS paths are outside the claim",
            "regex-automata matches exactly the language of the regex-syntax 0.8.11 HIR of the pattern text (the HIR is what the translator reads)",
            "programs are enumerated from the bounded grammar of DESIGN.md 3.2 plus the fixed corpus; the for-all is over paths, per program",
        ]

    def solve(self, tasks, **kw):
        return self.pool.solve(tasks, **kw)

    def replay_match(self, items):
        """items: list of (target-spec, path). Returns list of real results (dict with m, caps..)."""
        rows = probe([{"op": "match", "target": spec, "paths": [p]} for spec, p in items])
        self.replayed += len(items)
        out = []
        for (spec, p), row in zip(items, rows):
            if not row or not row.get("ok"):
                raise Inconclusive("replay failed for %r: %r" % (spec, row))
            out.append(row["results"][0])
        return out

    def patched_unsat(self, items, build_query):
        """Known-finding attribution by term patch (DESIGN 1.4). items: list of (key, pattern).
        For every pattern that has the rooted-leading-tree piece, the obligation is re-asked on the
        patched term (build_query(key, patched_smt) -> smt text). Returns the set of keys whose
        patched obligation is unsat, i.e. whose counterexample is explained by that finding alone."""
        import roles as R
        todo = [(k, R.patch_rooted_leading_tree(p)) for k, p in items]
        todo = [(k, p) for k, p in todo if p is not None]
        if not todo:
            return set()
        rows = probe([{"op": "re", "re": p} for _, p in todo])
        tasks = []
        for (k, _), row in zip(todo, rows):
            if row and "smt" in row:
                tasks.append((("patch", k), build_query(k, row["smt"])))
        res = self.pool.solve(tasks, keep_unsat=False)
        # a patched obligation the solver cannot decide: the counterexample can be neither
        # attributed nor reported as new; it is counted as undecided
        self.patch_undecided = {k[1] for k, v in res.items() if v[0] in ("unknown", "error")}
        return {k[1] for k, v in res.items() if v[0] == "unsat"}

    def finish(self, programs, extra=None, inconclusive=None):
        xs = cross_check_unsat(self.pool, 200 if tier() == "quick" else 10 ** 9, self.rnd)
        if xs[3]:
            raise Inconclusive("z3 4.8.12 disagrees with z3 5.1.0 on %r" % (xs[3][:3],))
        self.pool.close()
        cov = {
            "programs": programs,
            "disagreements_checked": self.replayed,
            "queries": self.pool.queries,
            "solver_verdicts": dict(self.pool.counts),
            "solver_s": round(self.pool.solver_s, 2),
            "build_s": round(self.build_s, 1),
            "selftest_vectors": self.n_self,
            "second_solver": {"engine": "z3 4.8.12", "checked": xs[0], "agreed": xs[1], "unknown": xs[2],
                              "spurious_sat_refuted_by_ground_evaluation": getattr(cross_check_unsat, "spurious", 0)},
            "bounds": "programs: DESIGN.md 3.2 (%s tier); paths: unbounded length" % tier(),
        }
        if extra:
            cov.update(extra)
        if programs == 0 and not inconclusive:
            inconclusive = "no program in scope (vacuous run)"
        return self.rep.finish(cov, inconclusive=inconclusive)
