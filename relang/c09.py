"""C09 -- an 'always exhaustive' verdict is sound (engine A)."""
import progs
import roles as R
from core import (probe, member, inter, diff, cat, union, SEP, EPS, tier, main_wrapper,
                  Inconclusive)
from session import Session


def descendants_outside(L):
    """Canonical paths strictly beneath a canonical path matched by L, that L does not match."""
    inner = union("CANONREL", cat(SEP, "CANONREL"))
    below = union(cat(inter(L, inner), SEP, "CANONREL"),
                  cat(inter(L, EPS), "CANONREL"),
                  cat(inter(L, SEP), "CANONREL"))
    return diff(below, L)


def split_parent(w, matches):
    """Finds a proper canonical ancestor of w accepted by `matches` (a callable)."""
    cands = []
    if not w.startswith("/"):
        cands.append("")
    else:
        cands.append("/")
    idx = [i for i, c in enumerate(w) if c == "/" and i > 0]
    cands += [w[:i] for i in idx]
    return cands


def combinator_pairs(ses, recs, n):
    texts = [r["text"] for r in recs]
    exh = [r["text"] for r in recs if r["row"]["exh"] == "Always"]
    pairs = []
    for _ in range(n):
        a = ses.rnd.choice(exh) if exh and ses.rnd.random() < 0.8 else ses.rnd.choice(texts)
        b = ses.rnd.choice(exh) if exh and ses.rnd.random() < 0.6 else ses.rnd.choice(texts)
        pairs.append(([a, b], ses.rnd.choice(["text", "glob", "nested"])))
    return pairs


def run():
    ses = Session("C09")
    rep = ses.rep
    recs, stats, _ = progs.load(routes=True)
    pairs = combinator_pairs(ses, recs, 400 if tier() == "quick" else 6000)
    anyrows = probe([{"op": "any", "pats": p, "mode": m} for p, m in pairs])
    asts = {r["text"]: (r["ast"] if r["ast_ok"] else None) for r in recs}
    targets = [(r["text"], {"glob": r["text"]}, r["row"], [asts[r["text"]]]) for r in recs]
    for (p, m), row in zip(pairs, anyrows):
        if row.get("ok") and "smt" in row:
            targets.append(("any(%s;%s)" % (",".join(p), m), {"any": p, "mode": m}, row,
                            [asts[x] for x in p]))
    # re-owned globs answer is_exhaustive from a rebuilt token tree but match with the retained
    # program: a verdict that changes on the way is checked against that program
    for r in recs:
        for route in ("into_owned", "from_str", "clone"):
            d = (r["row"].get("routes") or {}).get(route)
            if d and "error" not in d and d.get("exh") == "Always" and r["row"]["exh"] != "Always" and "smt" in d:
                targets.append(("%s (%s)" % (r["text"], route), {"glob": r["text"], "route": route}, d,
                                [asts[r["text"]]]))
    tasks = []
    always = 0
    for i, (label, spec, row, _) in enumerate(targets):
        if row["exh"] == "Always":
            always += 1
            tasks.append((i, member(descendants_outside(row["smt"]))))
            tasks.append((("ne", i), member(inter(row["smt"], "CANON"))))
    res = ses.solve(tasks)
    nonempty = sum(1 for k, v in res.items() if isinstance(k, tuple) and v[0] == "sat")
    wit = [(k, v[1]) for k, v in res.items() if not isinstance(k, tuple) and v[0] == "sat"]
    for k, v in res.items():
        if not isinstance(k, tuple) and v[0] in ("unknown", "error"):
            rep.undecided_add({"program": targets[k][0], "why": v[1]})
    # replay: the witness must be unmatched and have a matched proper ancestor
    items = []
    for i, w in wit:
        for a in split_parent(w, None):
            items.append((targets[i][1], a))
        items.append((targets[i][1], w))
    real = ses.replay_match(items)
    pos = 0
    for i, w in wit:
        anc = split_parent(w, None)
        rs = real[pos:pos + len(anc) + 1]
        pos += len(anc) + 1
        matched_anc = [a for a, r in zip(anc, rs[:-1]) if r["m"]]
        if rs[-1]["m"] or not matched_anc:
            raise Inconclusive("witness %r for %r does not reproduce" % (w, targets[i][0]))
        roles = {"always-exhaustive-unsound"}
        if "\n" in w[len(matched_anc[-1]):]:
            roles.add("newline-below-tree")
        if matched_anc[-1] == "" and targets[i][1].get("route") is None:
            roles.add("exhaustive-matches-empty-path")
        reowned = targets[i][1].get("route") is not None
        if reowned:
            # the verdict changed by re-owning the glob: not the known heuristic's doing
            roles.add("verdict-changed-by-re-owning")
        elif any(R.exhaustive_heuristic_family(a) for a in targets[i][3]):
            roles.add("not-plain-tree-tail")
        elif any(R.has_nullable_top_component(a) and R.plain_tree_tail(a) for a in targets[i][3] if a):
            roles.add("open-component-matched-by-nothing")
        rep.candidate(roles, {"short": {"program": targets[i][0], "is_exhaustive": "Always",
                                        "matches": matched_anc[-1], "but_not_descendant": w}})
    for (label, spec, row, _) in [t for t in targets if t[2]["exh"] == "Always"][:8]:
        rep.sample({"program": label, "is_exhaustive": "Always",
                    "obligation": "forall canonical p in L, forall canonical q beneath p: q in L"})
    rep.assumptions.append("canonical path: components non-empty, without '/', not '.' or '..'; relative or rooted; the empty path and '/' are included as parents")
    return ses.finish(always, {"programs_total": len(targets), "always_exhaustive": always,
                               "always_exhaustive_nonempty": nonempty, "generated": stats,
                               "functions_encoded": ["token::parse", "rule::check", "encode::compile",
                                                      "Token::is_exhaustive", "crate::any"]},
                      inconclusive=None if nonempty else "no non-empty always-exhaustive program")


if __name__ == "__main__":
    main_wrapper(run)
