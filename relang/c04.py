"""C04 -- captures are consistent with the match and with the expression (engine A)."""
import gen
import progs
import ref
import roles as R
from core import (probe, member, inter, diff, cat, union, star, opt, esc, SEP, EPS, tier,
                  main_wrapper, Inconclusive, ground_member)
from session import Session

CS = star(cat("C", SEP))                        # (C/)*
RUN_LAST = cat(opt(cat("C", star(cat(SEP, "C")))), opt(SEP))   # (C(/C)*)?/?


def capref_list(ast, orbits):
    """For every capturing top-level token, in order: (kind, RegLan of what its capture may be),
    or None if the expression has an unspecified construct."""
    ctx = ref.Ctx(orbits)
    items = gen.nonflag(ast)
    n = len(items)
    out = []
    idx = -1
    for it in ast:
        k = it[0]
        if k == "flag":
            ctx.ci = it[2]
            continue
        idx += 1
        first, last = idx == 0, idx == n - 1
        if k == "lit" or k == "sep":
            continue
        if k == "one":
            out.append(("one", "NSEP"))
        elif k in ("zom", "lazy"):
            out.append((k, star("NSEP")))
        elif k == "class":
            r = ref.class_re(it[1], it[2])
            if r is None:
                return None
            out.append(("class", r))
        elif k == "tree":
            lead = it[1]
            if n == 1:
                may = "ANY"
            elif first:
                may = cat(SEP, CS) if lead else cat(opt(SEP), CS)
            elif last:
                may = RUN_LAST
            else:
                may = CS
            out.append(("tree", may))
        else:
            must, may = ref.ref([it], ctx, first, last)
            out.append((k, may))
    if ctx.unspec:
        return None
    return out


def run():
    ses = Session("C04")
    rep = ses.rep
    recs, stats, _ = progs.load()
    usable = [r for r in recs if r["ast_ok"] and r["row"]["caps"]]
    orbits = probe([{"op": "fold", "chars": ref.needed_orbit_chars([r["ast"] for r in usable])}])[0]["orbits"]
    tasks = []
    info = {}
    structural = 0
    unspecified = 0
    for i, r in enumerate(usable):
        row = r["row"]
        groups = sorted(row.get("groups", []), key=lambda g: g["index"])
        caps = row["caps"]
        structural += 1
        ok = (len(groups) == len(caps) and [g["index"] for g in groups] == list(range(1, len(caps) + 1))
              and [c[0] for c in caps] == list(range(1, len(caps) + 1))
              and not any(g["nested"] or g["under_repetition"] for g in groups))
        if not ok:
            rep.candidate({"capture-group-structure"},
                          {"short": {"program": r["text"], "reported_captures": len(caps),
                                     "regex_groups": [(g["index"], g["nested"], g["under_repetition"]) for g in groups],
                                     "pattern": row["re"]}})
            continue
        refs = capref_list(r["ast"], orbits)
        if refs is None:
            unspecified += 1
            continue
        if len(refs) != len(groups):
            continue  # reference parser and wax disagree on tokens (already excluded by ast_ok)
        for g, (kind, may) in zip(groups, refs):
            key = (i, g["index"])
            info[key] = (r, kind, may, g)
            tasks.append((key, member(inter("WF", cat(g["left"], diff(g["sub"], may), g["right"])))))
    pending = dict(tasks)
    blocked = {k: [] for k in pending}
    rounds = 0
    confirmed = 0
    while pending and rounds < 4:
        rounds += 1
        qs = []
        for k, q in pending.items():
            extra = "".join('(assert (not (= s "%s")))\n' % esc(w) for w in blocked[k])
            qs.append((k, extra + q))
        res = ses.solve(qs)
        nxt = {}
        wit = []
        for k, (status, w, _) in res.items():
            if status in ("unknown", "error"):
                rep.undecided_add({"program": info[k][0]["text"], "group": k[1], "why": w})
            elif status == "sat":
                wit.append((k, w))
        real = ses.replay_match([({"glob": info[k][0]["text"]}, w) for k, w in wit])
        ground = []
        for (k, w), rm in zip(wit, real):
            r, kind, may, g = info[k]
            cap = rm.get("caps", [None] * (k[1] + 1))[k[1]] if rm.get("matched") else None
            if not rm["m"] or cap is None:
                # the engine's parse does not let this group participate on this path: block, retry
                blocked[k].append(w)
                nxt[k] = pending[k]
                continue
            ground.append((k, w, cap, rm))
        # is the real capture outside what the statement allows? (ground solver evaluation)
        gres = ses.solve([((k, "g"), '(assert (= s "%s"))\n' % esc(cap) + member(info[k][2]))
                          for k, w, cap, rm in ground], keep_unsat=False)
        for k, w, cap, rm in ground:
            status = gres[(k, "g")][0]
            r, kind, may, g = info[k]
            if status == "sat":
                blocked[k].append(w)     # the engine's leftmost-first parse is fine on this path
                nxt[k] = pending[k]
            elif status == "unsat":
                confirmed += 1
                roles = {"capture-outside-its-sub-expression", "capture-kind-" + kind}
                ar = R.ast_roles(r["ast"])
                if kind == "tree" and k[1] == 1 and "rooted-leading-tree" in ar:
                    roles.add("rooted-leading-tree")
                elif R.patch_rooted_leading_tree(r["row"]["re"]) is not None:
                    # a rooted leading tree wildcard inside this (leading) branch: attributed to the
                    # known finding only if the group obligation holds on the patched pattern
                    prow = probe([{"op": "re", "re": R.patch_rooted_leading_tree(r["row"]["re"]), "groups": True}])[0]
                    pg = [x for x in prow.get("groups", []) if x["index"] == k[1]]
                    if pg:
                        q = member(inter("WF", cat(pg[0]["left"], diff(pg[0]["sub"], may), pg[0]["right"])))
                        if ses.solve([("p", q)], keep_unsat=False)["p"][0] == "unsat":
                            roles.add("rooted-leading-tree")
                if kind in ("alt", "rep") and ref.superposition_mismatch(r["ast"]):
                    roles.add("tree-at-branch-edge")
                rep.candidate(roles, {"short": {"program": r["text"], "path": w, "capture_index": k[1],
                                                "captured": cap, "token_kind": kind,
                                                "all_captures": rm.get("caps")}})
            else:
                rep.undecided_add({"program": r["text"], "group": k[1], "why": "ground evaluation undecided"})
        pending = nxt
    for k in pending:
        rep.undecided_add({"program": info[k][0]["text"], "group": k[1],
                           "why": "solver parses differ from the engine's parse on 4 successive witnesses"})
    # index mapping on solver-chosen paths: matched().get(i) is the regex's group i, None where the
    # group does not participate, None beyond the last group. Witnesses: a matched path, and for
    # every group a matched path that has NO parse in which that group participates.
    wtasks = []
    for i, r in enumerate(usable):
        row = r["row"]
        wtasks.append(((i, 0), member(inter(row["smt"], "WF"))))
        for g in row.get("groups", []):
            wtasks.append(((i, g["index"]), member(inter("WF", diff(row["smt"], cat(g["left"], g["sub"], g["right"]))))))
    wres = ses.solve(wtasks, keep_unsat=False)
    by_prog = {}
    for (i, gi), (status, w, _) in wres.items():
        if status == "sat":
            by_prog.setdefault(i, set()).add(w)
    order = sorted(by_prog)
    wax_rows = probe([{"op": "match", "target": {"glob": usable[i]["text"]}, "paths": sorted(by_prog[i])} for i in order])
    raw_rows = probe([{"op": "match", "target": {"re": usable[i]["row"]["re"]}, "paths": sorted(by_prog[i])} for i in order])
    mapping_checked = 0
    for i, wr, rr in zip(order, wax_rows, raw_rows):
        if not (wr and wr.get("ok") and rr and rr.get("ok")):
            continue
        n = len(usable[i]["row"]["caps"])
        for p, a, b in zip(sorted(by_prog[i]), wr["results"], rr["results"]):
            mapping_checked += 1
            ses.replayed += 1
            want = (b.get("caps") or [])
            want = want + [None] * (n + 2 - len(want)) if b.get("caps") is not None else None
            got = a.get("caps") if a.get("matched") else None
            if (want is None) != (got is None) or (want is not None and got[:len(want)] != want[:len(got)]):
                rep.candidate({"capture-index-mapping"},
                              {"short": {"program": usable[i]["text"], "path": p,
                                         "matched_get": got, "regex_groups": want}})
    # between-capture clause (relang/between.py)
    import between
    structured = [r for r in usable if (len(r["row"].get("groups", [])) == len(r["row"]["caps"])
                                        and not any(g["nested"] or g["under_repetition"] for g in r["row"].get("groups", [])))]
    bstats = between.run_between(ses, structured, orbits)
    # concrete clauses on witness paths: capture 0 is the whole path; out-of-range index is None
    sample_items = [({"glob": r["text"]}, r["text"]) for r in usable[:300]]
    for k in list(info)[:1200:120]:
        r, kind, may, g = info[k]
        rep.sample({"program": r["text"], "capture_index": k[1], "token_kind": kind,
                    "obligation": "forall WF paths and parses: capture in CapRef(token)",
                    "capref": may[:200]})
    rep.assumptions += [
        "group-local clause: for every parse (a superset of the engine's leftmost-first parse) a participating capture lies in the language its own sub-expression may match under the flags in force; wildcards/classes never capture a separator; a tree wildcard captures a run of complete components (by position)",
        "structure: one regex group per capturing top-level token, in order, not nested, not under a repetition, pattern anchored at both ends (hence capture 0 is the whole path and order/non-overlap follow)",
        "between-capture clause: per gap (before the first, between consecutive, after the last capture) the language of the top-level pieces of the compiled pattern between the two groups equals the reference language of the literal/separator tokens between the two sub-expressions; disagreements are replayed on a whole path through the real capture offsets (only for paths on which both neighbouring captures participate)",
        "well-formed paths (no '//'); programs with an unspecified construct (tree wildcard at a branch edge, reversed class range) are counted, not checked",
    ]
    return ses.finish(len({k[0] for k in info}), {
        "capture_groups_checked": len(info), "structure_checked": structural,
        "programs_unspecified": unspecified, "confirmed_outside": confirmed, "generated": stats,
        "between": bstats, "index_mapping_paths_checked": mapping_checked,
        "functions_encoded": ["encode::encode (Grouping)", "Glob::captures", "MatchedText::get",
                               "From<regex::Captures> for MatchedText"]})


if __name__ == "__main__":
    main_wrapper(run)
