"""C19 -- re-expressing or re-owning a pattern does not change its behaviour (engine A)."""
import progs
from core import probe, member, inter, diff, symdiff, tier, main_wrapper, Inconclusive
from session import Session

GLOB_ROUTES = ["display_new", "clone", "into_owned", "from_str", "try_from"]
ANY_ROUTES = ["any_text", "any_glob", "any_owned", "any_nested"]
FIELDS = ["exh", "root", "depth", "text", "caps", "semlit", "display"]
ANY_FIELDS = ["exh", "root", "depth", "text"]


def run():
    ses = Session("C19")
    rep = ses.rep
    recs, stats, _ = progs.load(routes=True)
    tasks = []
    lang_pairs = {}
    identical = 0
    compared = 0
    for i, r in enumerate(recs):
        row = r["row"]
        routes = row.get("routes")
        if not routes:
            continue
        text = r["text"]
        for name in GLOB_ROUTES:
            d = routes[name]
            if "error" in d:
                rep.candidate({"route-fails-to-build"}, {"short": {"program": text, "route": name, "error": d["error"]}})
                continue
            for f in FIELDS:
                compared += 1
                if d.get(f) != row.get(f):
                    rep.candidate({"route-changes-query-" + f},
                                  {"short": {"program": text, "route": name, "field": f,
                                             "original": row.get(f), "route_value": d.get(f)}})
            if d["re"] == row["re"]:
                identical += 1
            elif "smt" in d:
                lang_pairs[(i, name)] = (text, name)
                tasks.append((("lang", i, name), member(symdiff(row["smt"], d["smt"]))))
        base = routes["any_text"]
        for name in ANY_ROUTES[1:]:
            d = routes[name]
            if ("error" in d) != ("error" in base):
                rep.candidate({"route-fails-to-build"}, {"short": {"program": text, "route": name,
                                                                  "error": d.get("error") or base.get("error")}})
                continue
            if "error" in d:
                continue
            for f in ANY_FIELDS:
                compared += 1
                if d.get(f) != base.get(f):
                    rep.candidate({"route-changes-query-" + f},
                                  {"short": {"program": text, "route": name + " vs any_text", "field": f,
                                             "any_text": base.get(f), "route_value": d.get(f)}})
            if d["re"] == base["re"]:
                identical += 1
            elif "smt" in d and "smt" in base:
                tasks.append((("anylang", i, name), member(symdiff(base["smt"], d["smt"]))))
        pb, po = routes["part_borrowed"], routes["part_owned"]
        compared += 1
        strip = lambda p: p and {k: p.get(k) for k in ["re"] + FIELDS}
        if pb["prefix"] != po["prefix"] or strip(pb["post"]) != strip(po["post"]):
            rep.candidate({"partition-differs-borrowed-vs-owned"},
                          {"short": {"program": text, "borrowed": [pb["prefix"], pb["post"] and pb["post"]["display"]],
                                     "owned": [po["prefix"], po["post"] and po["post"]["display"]]}})
        # witness paths for the capture comparison
        tasks.append((("in", i), member(inter(row["smt"], "WF"))))
        tasks.append((("out", i), member(diff("WF", row["smt"]))))
    res = ses.solve(tasks)
    paths = {}
    for key, (status, w, _) in res.items():
        if status in ("unknown", "error"):
            if key[0] in ("lang", "anylang"):
                rep.undecided_add({"program": recs[key[1]]["text"], "route": key[2], "why": w})
            continue
        if key[0] in ("in", "out"):
            if status == "sat":
                paths.setdefault(key[1], []).append(w)
        elif status == "sat":
            i, name = key[1], key[2]
            text = recs[i]["text"]
            if key[0] == "lang":
                rs = ses.replay_match([({"glob": text}, w), ({"glob": text, "route": name}, w)])
                if rs[0]["m"] == rs[1]["m"]:
                    raise Inconclusive("language witness %r for %r route %s does not reproduce" % (w, text, name))
                rep.candidate({"route-changes-language"}, {"short": {"program": text, "route": name, "path": w,
                                                                    "original_matches": rs[0]["m"], "route_matches": rs[1]["m"]}})
            else:
                mode = name[4:]
                rs = ses.replay_match([({"any": [text], "mode": "text"}, w), ({"any": [text], "mode": mode}, w)])
                if rs[0]["m"] == rs[1]["m"]:
                    raise Inconclusive("any-language witness %r for %r route %s does not reproduce" % (w, text, name))
                rep.candidate({"route-changes-language"}, {"short": {"program": text, "route": name + " vs any_text", "path": w,
                                                                    "any_text_matches": rs[0]["m"], "route_matches": rs[1]["m"]}})
    # captures through every route on solver-produced paths (matched / unmatched) + the text itself
    cmds = []
    meta = []
    for i, ps in paths.items():
        text = recs[i]["text"]
        ps = sorted(set(ps + [text]))
        for route in ["new"] + GLOB_ROUTES:
            cmds.append({"op": "match", "target": {"glob": text, "route": route}, "paths": ps})
            meta.append((i, route, ps))
    rows = probe(cmds)
    ses.replayed += len(cmds)
    base = {}
    capture_cmp = 0
    for (i, route, ps), row in zip(meta, rows):
        if not row or not row.get("ok"):
            rep.candidate({"route-fails-to-build"}, {"short": {"program": recs[i]["text"], "route": route, "error": str(row)[:200]}})
            continue
        if route == "new":
            base[i] = row["results"]
            for p, r0 in zip(ps, row["results"]):
                if r0.get("matched") and not r0.get("owned_same"):
                    rep.candidate({"owned-matched-text-differs"},
                                  {"short": {"program": recs[i]["text"], "path": p, "borrowed_captures": r0.get("caps")}})
                if r0["m"] != r0["matched"]:
                    rep.candidate({"matched-disagrees-with-is-match"},
                                  {"short": {"program": recs[i]["text"], "path": p, "is_match": r0["m"], "matched": r0["matched"]}})
            continue
        for p, r0, r1 in zip(ps, base.get(i, []), row["results"]):
            capture_cmp += 1
            if r0 != r1:
                rep.candidate({"route-changes-captures"},
                              {"short": {"program": recs[i]["text"], "route": route, "path": p,
                                         "original": r0, "route_value": r1}})
    for r in recs[:500:50]:
        rep.sample({"program": r["text"], "routes": GLOB_ROUTES + ANY_ROUTES + ["partition borrowed/owned"],
                    "obligation": "same language (solver), same query answers, same captures on solver-chosen matched/unmatched paths"})
    rep.assumptions.append("language equality is decided for all paths; the other comparisons (query answers, captures on two solver-chosen paths and the expression text per program) are concrete per program")
    return ses.finish(len(paths), {"byte_identical_programs_skipped": identical, "field_comparisons": compared,
                                   "capture_comparisons": capture_cmp, "generated": stats,
                                   "functions_encoded": ["Glob::{new, clone, into_owned, from_str, try_from, Display}",
                                                          "Token::into_owned / fold_map", "crate::any (text, compiled, owned, nested)",
                                                          "Glob::partition (borrowed, owned)", "MatchedText::{to_owned, into_owned}"]})


if __name__ == "__main__":
    main_wrapper(run)
