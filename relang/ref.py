"""Reference semantics of glob expressions, built from the generator's AST alone (no wax code).

reference(ast, orbits) -> (must, may, unspecified)
  must ⊆ may are RegLan terms; the documentation promises `must` and excludes everything outside
  `may`; they differ only where the README is silent. `unspecified` is True when the expression
  contains a construct the documentation assigns no meaning to (a tree wildcard at the edge of a
  branch without its delimiter); such programs are excluded from C01 and counted.
"""
from core import EPS, SEP, cat, union, inter, diff, star, plus, opt, loop, lit, esc
from gen import rep_bounds

NSEP = "NSEP"          # defined in the prelude: one scalar value other than '/'
COMP = "C"             # one or more NSEP
ALL = "ANY"            # any string of scalar values


class Ctx:
    def __init__(self, orbits):
        self.ci = False
        self.unspec = False
        self.orbits = orbits


def lit_re(text, ci, orbits):
    if not ci:
        return lit(text)
    parts = []
    for c in text:
        orb = orbits.get(c, c)
        parts.append(union(*[lit(x) for x in sorted(set(orb))]))
    return cat(*parts)


def class_re(neg, arch):
    pos = []
    for a in arch:
        if a[0] == "c":
            pos.append(lit(a[1]))
        else:
            lo, hi = a[1], a[2]
            if ord(lo) > ord(hi):
                return None  # reversed range: undocumented
            pos.append('(re.range "%s" "%s")' % (esc(lo), esc(hi)))
    p = union(*pos)
    if neg:
        return diff(NSEP, p)
    return inter(p, NSEP)


def tree_re(kind, lead):
    """(must, may) for a tree wildcard by position."""
    cs = star(cat(COMP, SEP))       # (C/)*
    sc = star(cat(SEP, COMP))       # (/C)*
    if kind == "only":
        r = cat(SEP, ALL) if lead else ALL
        return r, r
    if kind == "first":
        if lead:
            r = cat(SEP, cs)
            return r, r
        return cs, cat(opt(SEP), cs)
    if kind == "last":
        return sc, cat(sc, opt(SEP))
    r = cat(SEP, cs)                # middle
    return r, r


def tree_kind(lead, trail, isfirst, islast, at_start, at_end):
    if isfirst and at_start and islast and at_end:
        return "only"
    if isfirst and at_start:
        return "first"
    if islast and at_end:
        return "last"
    # anywhere else a tree wildcard stands between two components: it must be delimited by
    # separators on both sides, whether it absorbed them itself or not
    return "middle"


def ref(g, ctx, at_start, at_end):
    must, may = [], []
    nf = [i for i, it in enumerate(g) if it[0] != "flag"]
    n = len(nf)
    idx = -1
    for it in g:
        k = it[0]
        if k == "flag":
            ctx.ci = it[2]
            continue
        idx += 1
        isfirst, islast = idx == 0, idx == n - 1
        if k == "lit":
            r = lit_re(it[1], ctx.ci, ctx.orbits)
            must.append(r)
            may.append(r)
        elif k == "sep":
            must.append(SEP)
            may.append(SEP)
        elif k == "one":
            must.append(NSEP)
            may.append(NSEP)
        elif k in ("zom", "lazy"):
            must.append(star(NSEP))
            may.append(star(NSEP))
        elif k == "class":
            r = class_re(it[1], it[2])
            if r is None:
                ctx.unspec = True
                r = "re.none"
            must.append(r)
            may.append(r)
        elif k == "tree":
            kind = tree_kind(it[1], it[2], isfirst, islast, at_start, at_end)
            if kind is None:
                ctx.unspec = True
                must.append(EPS)
                may.append(EPS)
            else:
                m, y = tree_re(kind, it[1])
                must.append(m)
                may.append(y)
        elif k == "alt":
            ms, ys = [], []
            for b in it[1]:
                m, y = ref(b, ctx, at_start and isfirst, at_end and islast)
                ms.append(m)
                ys.append(y)
            must.append(union(*ms))
            may.append(union(*ys))
        elif k == "rep":
            lo, hi = rep_bounds(it[2])
            single = hi is not None and hi <= 1
            m, y = ref(it[1], ctx, at_start and isfirst and single, at_end and islast and single)
            if hi is not None and lo > hi:
                ctx.unspec = True
            must.append(loop(m, lo, hi))
            may.append(loop(y, lo, hi))
        else:
            raise ValueError(k)
    return cat(*must), cat(*may)


def reference(ast, orbits):
    ctx = Ctx(orbits)
    if not ast:
        return EPS, EPS, False
    must, may = ref(ast, ctx, True, True)
    return must, may, ctx.unspec


def needed_orbit_chars(asts):
    chars = set()
    from gen import walk_items
    for ast in asts:
        for it in walk_items(ast):
            if it[0] == "lit":
                chars.update(it[1])
    return "".join(sorted(chars))


def impl_kind(own_pos, sup, lead):
    """The encoding the implementation is KNOWN to choose for a tree wildcard, as a function of its
    position in its concatenation and of the position of its outermost enclosing branch
    (superposition). Used only to decide whether the known superposition finding explains an already
    reproduced counterexample."""
    if own_pos == "middle":
        return "middle"
    if own_pos == "only":
        return "only"
    if own_pos == "first":
        if sup in ("mid", "last"):
            return "middle"
        return "first"
    if sup in ("first", "mid"):
        return "middle"
    return "last"


def superposition_mismatch(ast):
    """True iff for some tree wildcard the encoding chosen by position/superposition differs from
    the one its real context (start / end of the whole path in every unfolding, or in between)
    calls for -- the known superposition finding."""
    from gen import nonflag
    import roles as R
    found = [False]

    def rec(g, at_start, at_end, sup):
        items = nonflag(g)
        n = len(items)
        for i, it in enumerate(items):
            isfirst, islast = i == 0, i == n - 1
            pos = R._position(i, n)
            if it[0] == "tree":
                want = tree_kind(it[1], it[2], isfirst, islast, at_start, at_end)
                got = impl_kind(pos, R._sup_class(sup), it[1])
                if got != want:
                    found[0] = True
            elif it[0] == "alt":
                for b in it[1]:
                    rec(b, at_start and isfirst, at_end and islast, sup if sup is not None else pos)
            elif it[0] == "rep":
                lo, hi = rep_bounds(it[2])
                single = hi is not None and hi <= 1
                rec(it[1], at_start and isfirst and single, at_end and islast and single,
                    sup if sup is not None else pos)
    if ast:
        rec(ast, True, True, None)
    return found[0]
