"""C10 -- reported depth bounds contain the depth of every match (engine A part)."""
import progs
import roles as R
from core import (probe, member, inter, diff, cat, union, loop, SEP, EPS, tier, main_wrapper,
                  Inconclusive)
from session import Session


def depth_lang(lo, hi):
    """Canonical paths (relative or rooted) with lo..hi components (root not counted)."""
    if hi is not None and hi == 0:
        rel = "re.none"
    else:
        rel = cat("C1", loop(cat(SEP, "C1"), max(lo, 1) - 1, None if hi is None else hi - 1))
    parts = [rel, cat(SEP, rel)]
    if lo == 0:
        parts.append(SEP)
    return union(*parts)


def bounds(d):
    if "inv" in d:
        return d["inv"], d["inv"]
    return (d["lo"] or 0), d["hi"]


def shape(root):
    return {"Always": "CANONABS", "Never": "CANONREL"}.get(root, "CANON")


def ncomp(path):
    return len([c for c in path.split("/") if c])


def run():
    ses = Session("C10")
    rep = ses.rep
    recs, stats, _ = progs.load(routes=True)
    texts = [r["text"] for r in recs]
    pairs = []
    for _ in range(400 if tier() == "quick" else 6000):
        k = ses.rnd.choice([1, 2, 2, 3])
        pairs.append(([ses.rnd.choice(texts) for _ in range(k)], ses.rnd.choice(["text", "glob", "nested"])))
    anyrows = probe([{"op": "any", "pats": p, "mode": m} for p, m in pairs])
    asts = {r["text"]: (r["ast"] if r["ast_ok"] else None) for r in recs}
    member_asts = {r["text"]: [asts[r["text"]]] for r in recs}
    targets = [(r["text"], {"glob": r["text"]}, r["row"]) for r in recs]
    for (p, m), row in zip(pairs, anyrows):
        if row.get("ok") and "smt" in row:
            label = "any(%s;%s)" % (",".join(p), m)
            # in a combinator every pattern is a branch of one alternation
            member_asts[label] = [([("alt", [asts[x]])] if asts[x] else asts[x]) for x in p]
            targets.append((label, {"any": p, "mode": m}, row))
    # re-owned globs answer depth() from a rebuilt token tree but match with the retained program:
    # a depth that changes on the way is checked against that program (no known-finding roles)
    reowned = set()
    for r in recs:
        for route in ("into_owned", "from_str", "clone"):
            d = (r["row"].get("routes") or {}).get(route)
            if d and "error" not in d and "smt" in d and d.get("depth") != r["row"]["depth"]:
                label = "%s (%s)" % (r["text"], route)
                member_asts[label] = [None]
                reowned.add(label)
                targets.append((label, {"glob": r["text"], "route": route}, d))
    tasks = []
    kinds = {}
    for i, (label, spec, row) in enumerate(targets):
        lo, hi = bounds(row["depth"])
        kinds[("inv" if "inv" in row["depth"] else "var", lo == 0, hi is None)] = label
        if lo == 0 and hi is None:
            continue  # unbounded on both sides: nothing to check
        tasks.append((i, member(diff(inter(row["smt"], shape(row["root"])), depth_lang(lo, hi)))))
    res = ses.solve(tasks)
    wit = [(k, v[1]) for k, v in res.items() if v[0] == "sat"]
    for k, v in res.items():
        if v[0] in ("unknown", "error"):
            rep.undecided_add({"program": targets[k][0], "why": v[1]})
    real = ses.replay_match([(targets[i][1], w) for i, w in wit])
    for (i, w), r in zip(wit, real):
        lo, hi = bounds(targets[i][2]["depth"])
        n = ncomp(w)
        if not r["m"] or (lo <= n and (hi is None or n <= hi)):
            raise Inconclusive("witness %r for %r does not reproduce" % (w, targets[i][0]))
        roles = {"depth-outside-reported-bounds"}
        if targets[i][0] in reowned:
            rep.candidate(roles | {"depth-changed-by-re-owning"},
                          {"short": {"program": targets[i][0], "depth": targets[i][2]["depth"],
                                     "matches": w, "components": n}})
            continue
        if n < lo:
            roles.add("fewer-components-than-lower-bound")
            if any(R.has_nullable_component(a[0][1][0] if (a and len(a) == 1 and a[0][0] == "alt" and len(a[0][1]) == 1 and targets[i][0].startswith("any(")) else a)
                   for a in member_asts[targets[i][0]]):
                roles.add("open-component-matched-by-nothing")
        else:
            roles.add("more-components-than-upper-bound")
        if any(R.separator_class(a) for a in member_asts[targets[i][0]] if a):
            roles.add("separator-class")
        import ref as _ref
        # the depth fold is unreliable for every tree wildcard at a branch edge (superposition,
        # open components continuing into the branch, rooted variants: `/ab{c/**}` reports >= 2)
        if any(_ref.superposition_mismatch(a) or R.tree_at_branch_edge(a) for a in member_asts[targets[i][0]] if a):
            roles.add("tree-at-branch-edge")
        rep.candidate(roles, {"short": {"program": targets[i][0], "depth": targets[i][2]["depth"],
                                        "matches": w, "components": n}})
    for (label, spec, row) in targets[:400:50]:
        rep.sample({"program": label, "depth": row["depth"], "has_root": row["root"],
                    "obligation": "forall canonical s in L of the pattern's rootedness: components(s) within depth"})
    import os, sys
    sys.path.insert(0, os.path.join(os.path.dirname(os.path.abspath(__file__)), "..", "kanidrv"))
    import runprop
    kcov, kinc = runprop.run_kani_part("C10", rep)
    rep.assumptions.append("canonical paths only; rooted iff the pattern reports has_root Always (both shapes when Sometimes); the root is not counted as a component; the empty path is excluded (it has no components)")
    return ses.finish(len(tasks), {"programs_total": len(targets), "depth_shapes_seen": len(kinds),
                                   "generated": stats, "kani": kcov,
                                   "functions_encoded": ["token::parse", "rule::check", "encode::compile",
                                                          "Token::variance::<Depth>", "crate::any",
                                                          "range algebra (Kani, see kani.harnesses)"]},
                      inconclusive=kinc)


if __name__ == "__main__":
    main_wrapper(run)
