"""C17 -- spans index the expression safely (engine B, **kernel level**) + the spans met by the sweep.

Decided by the solver (Kani/CBMC over the real code): the span arithmetic every reported span goes
through -- the span of a parse error (for every character at the fault, any UTF-8 width, and at the
end of input), the union rule errors are located by, the span adjustment when a rooted tree
wildcard is unrooted by partition. Where the spans *come from* (the nom parser's pori::span
annotations, which tokens the rule checker picks) cannot be executed symbolically; it is exercised
concretely by the sweep below, which is enumeration and labelled as such."""
import os
import sys

sys.path.insert(0, os.path.join(os.path.dirname(os.path.abspath(__file__)), "..", "kanidrv"))
import gen
import progs
import runprop
from core import Report, build_probe, main_wrapper, probe, tier, seed

import re
_FLAG_IN_TREE = re.compile(r"/(?:\(\?[-i]+\))+\*\*|\*\*(?:\(\?[-i]+\))+/")

PREFIXES = ["", "金", "é/", "a", "(?i)金", "金/**/", "{é,金}", "<é:1,2>", "a/金.", "**/"]
FAULTS = ["\\", "{", "{a", "{a,", "{金", "[", "[a", "[a-", "[金-", "[]", "[!]", "<", "<a:", "<a:1,", "<金", "(?", "(?i",
          "(?x)", "**a", "a**", "**金", "金**", "//", "/**/**", "{**}", "<*>", "<a:2,1>", "<a:0,0>", "</>", "{/a,b}",
          "{a/,b}/", "<a/:2>/", "*$", "{a,*}*", "<*:1>", "{**/a,b}/**", "/{/金,b}", "金**/", "***", "}", ">", "]", ",a",
          ":", "a,金", "{a,b", "{a,{b,c}", "<a:,>", "<a:x>", "[a-]", "[\\", "\\\\", "(?i)", "{a,(?i)}", "$$", "**/**"]
SUFFIXES = ["", "金", "/é", "}", "/**", "*"]


def malformed():
    out = []
    seen = set()
    for p in PREFIXES:
        for f in FAULTS:
            for s in SUFFIXES:
                e = p + f + s
                if e not in seen:
                    seen.add(e)
                    out.append(e)
    return out


def run():
    rep = Report("C17", "model_checking")
    build_probe()
    cov, inc = runprop.run_kani_part("C17", rep)
    # ---------------- sweep (concrete; enumeration, not a solver decision) ----------------
    asts = progs.program_asts(max_random=1500 if tier() == "quick" else 12000)
    texts = list(asts) + [e for e in malformed() if e not in asts]
    rows = probe([{"op": "spans", "e": t} for t in texts])
    st = {"expressions": len(texts), "built": 0, "rejected": 0, "panicked": 0, "capture_spans": 0,
          "postfix_capture_spans": 0, "error_spans": 0, "compared_with_reference_ast": 0}
    for t, row in zip(texts, rows):
        if row is None or row.get("panic") or row.get("abort"):
            st["panicked"] += 1     # C05's business
            continue
        nbytes = len(t.encode("utf-8"))
        if not row.get("ok"):
            st["rejected"] += 1
            for l in row.get("locations", []):
                st["error_spans"] += 1
                bad = None
                if l["slice"] is None:
                    bad = "error-span-not-sliceable"
                elif l["len"] == 0 and l["start"] != nbytes:
                    bad = "error-span-empty-inside-expression"
                if bad:
                    rep.candidate({bad}, {"short": {"expression": t, "span": [l["start"], l["len"]],
                                                    "label": l["label"], "error": row.get("err"),
                                                    "scenario": "Glob::new(e).unwrap_err().locations(); e.get(start..)?.get(..len)"}})
            continue
        st["built"] += 1
        caps = row["caps"]
        for c in caps:
            st["capture_spans"] += 1
            if c["slice"] is None:
                rep.candidate({"capture-span-not-sliceable"},
                              {"short": {"expression": t, "capture": c["index"], "span": [c["start"], c["len"]]}})
        if row.get("owned_caps") != caps:
            rep.candidate({"owned-capture-spans-differ"},
                          {"short": {"expression": t, "borrowed": caps, "owned": row.get("owned_caps")}})
        post = row.get("post")
        if post:
            for c in post["caps"]:
                st["postfix_capture_spans"] += 1
                if c["slice"] is None:
                    rep.candidate({"postfix-capture-span-not-sliceable"},
                                  {"short": {"expression": t, "postfix": post["text"], "capture": c["index"],
                                             "span": [c["start"], c["len"]]}})
            # after partitioning, spans refer to the postfix expression: they must be the spans
            # the postfix expression has when it is built on its own
            # (a postfix text that does not rebuild is C08's clause and known finding)
            if isinstance(post.get("rebuilt_caps"), list) and post["rebuilt_caps"] != post["caps"]:
                rep.candidate({"postfix-capture-spans-differ-from-rebuilt-postfix"},
                              {"short": {"expression": t, "postfix": post["text"], "reported": post["caps"],
                                         "rebuilt": post.get("rebuilt_caps")}})
        # the span delimits exactly the text of the sub-expression: compare with the spans the
        # generator's own AST assigns to the capturing top-level tokens
        ast = asts.get(t)
        if ast is None or gen.show(ast) != t:
            continue
        # a flag written between a tree wildcard and a separator it absorbs is outside the
        # documented syntax ("flags anywhere except inside a tree wildcard"); wax reads it as part of
        # the tree wildcard, the reference AST does not: no reference spans for such expressions
        if _FLAG_IN_TREE.search(t):
            st["outside_documented_syntax"] = st.get("outside_documented_syntax", 0) + 1
            continue
        mine = [(i + 1, s, n) for i, (_, s, n) in enumerate(gen.capturing_tokens(ast))]
        theirs = [(c["index"], c["start"], c["len"]) for c in caps]
        if mine != theirs:
            alt = gen.parse(t)
            if alt is not None and gen.show(alt) == t:
                mine2 = [(i + 1, s, n) for i, (_, s, n) in enumerate(gen.capturing_tokens(alt))]
                if mine2 == theirs:
                    mine = mine2
        st["compared_with_reference_ast"] += 1
        if mine != theirs:
            rep.candidate({"capture-span-differs-from-subexpression"},
                          {"short": {"expression": t, "reported": theirs, "sub_expressions": mine,
                                     "scenario": "Glob::new(e).captures() -> (index, start, len) vs. the byte spans of the capturing top-level tokens"}})
    cov["samples"] = cov["harnesses"][:10]
    cov["sweep"] = dict(st, note="enumeration of concrete expressions through the real Glob::new / captures() / partition() / BuildError::locations(), not a solver decision")
    rep.assumptions += [
        "kernel level: decided for all operands are the span of a parse error entry (given the parser contract that the entry's fragment is the rest of the expression at its location), the union that locates rule errors, the accessors of CompositeSpan / CorrelatedSpan, and the span adjustment of an unrooted tree wildcard",
        "outside the claim: the spans the nom parser attaches to tokens (pori::span) and which tokens the rule checker reports -- neither can be executed symbolically; they are only exercised concretely by the sweep (generated programs and a malformed-expression family with multi-byte characters around the fault)",
        "that capture spans after partitioning agree with the rebuilt postfix is C08's clause",
    ]
    return rep.finish(cov, inconclusive=inc)


if __name__ == "__main__":
    main_wrapper(run)
