#!/bin/bash
# usage: confirmmut.sh <id> : in the agent's scratch worktree: suite passes with change, demo fails with change, demo passes without
id=$1; w=/tmp/mut/$id; t=/tmp/mut/$id-target
cd $w || exit 9
echo "-- suite with change"; cargo test --workspace --no-fail-fast --offline --target-dir $t 2>&1 | grep -E "^test result" 
echo "-- demo with change"; cargo test --offline --target-dir $t --test demo_$id 2>&1 | grep -E "^test result|^error" | head -3
git diff -- src > /tmp/mut/$id.confirm.diff; git checkout -- src
echo "-- demo without change"; cargo test --offline --target-dir $t --test demo_$id 2>&1 | grep -E "^test result|^error" | head -3
git apply /tmp/mut/$id.confirm.diff
git diff --stat -- src | tail -1
