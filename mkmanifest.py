#!/usr/bin/env python3
"""Generates MANIFEST.json from the table below (single source of truth for what is claimed)."""
import json
import os
import subprocess

HERE = os.path.dirname(os.path.abspath(__file__))

A = "relang (z3 regular-language queries over the real compiled regex text)"
B = "kani (CBMC bounded model checking of the real Rust code)"

TV = "translation_validation"
MC = "model_checking"

# id -> (engine, category, technique, text, note, design_ref)
CHECKS = {
    "C01": ("relang", TV, "SMT regular-language inclusion (z3 seq/re theory): compiled pattern vs. reference semantics built from the AST, per program, for all well-formed paths",
            "For every generated program the regex text the real code compiled is translated (regex-syntax HIR -> RegLan) and z3 decides WF ∩ (L ∖ May) = ∅ and WF ∩ (Must ∖ L) = ∅ against a documentation-derived reference (Must ⊆ May sandwich); witnesses are replayed through the real is_match.",
            "Trusted: regex-syntax HIR = what regex-automata matches; HIR->SMT translator (self-tested each run); relang/ref.py as the reading of the README; z3. Programs enumerated from a bounded grammar; programs the documentation gives no meaning to are counted as unspecified.",
            "5 C01"),
    "C09": ("relang", TV, "SMT regular-language emptiness: descendants of matched canonical paths minus the language, per program reporting Always",
            "For every glob / `any` combinator (and every re-owned glob whose verdict changed) that reports is_exhaustive Always, z3 decides that no canonical path beneath a matched canonical path is unmatched (one query over all paths and all descendants); witnesses replayed through the real is_match.",
            "Trusted base as C01 without the reference semantics (the obligation only uses the program's own language). One-directional: Sometimes/Never are not constrained.",
            "5 C09"),
    "C10": ("relang+kani", TV, "SMT regular-language inclusion: matched canonical paths vs. the language of paths with lo..hi components, per program",
            "For every glob / combinator z3 decides that every canonical path of the pattern's rootedness it matches has a component count inside the reported depth variance; witnesses replayed through the real is_match. Engine B: the range algebra those numbers come from is model checked sound (x in a, y in b => x+y in a(+)b; union contains both; products against a constant table of repetition ranges; opened bounds widen) for all operands below 2^62, and the termination table (concatenation + finalize of separator-count terms yields the number of components, for all well-formed pairs of the non-coalescent terminations).",
            "Trusted base as C09. Root not counted as a component; empty path excluded (no components).",
            "5 C10"),
    "C11": ("relang", TV, "SMT regular-language emptiness (z3 seq/re theory) on the pattern compiled by the real code, per program, for all paths",
            "For every program that reports invariant text t (globs from a bounded grammar + corpus, and `any` combinators of them) z3 decides that L(program) minus {t} is empty over all strings of any length, and that t is in L(program); sat witnesses are replayed through the real is_match.",
            "Trusted: regex-syntax 0.8.11 HIR of the pattern text = what regex-automata matches; the ~100-line HIR->SMT translator (self-tested each run on the repository's own match vectors); z3. Programs are enumerated (bounded grammar), paths are not.",
            "5 C11"),
    "C12": ("relang", TV, "SMT regular-language emptiness: language ∩ unrooted strings, per program reporting has_root Always; per-program comparison for the two concrete clauses",
            "For every glob / combinator reporting has_root Always z3 decides that it matches no string that does not begin with '/'; that globs never report Sometimes and that has_semantic_literals covers every component spelled `.`/`..` in the AST is compared per program.",
            "Trusted base as C09; the semantic-literal truth is computed from the generator's AST (conservatively: only components certainly delimited).",
            "5 C12"),
}

CHECKS.update({
    "C13": ("kani", MC, "bounded model checking (Kani/CBMC) of one inductive step of the real combinator code from an arbitrary pre-state, with environment stubs",
            "The real Separation algebra, FilterEntry::feed, Not::feed (stacks of 1-3 in every order, negation verdict stubbed arbitrary) and WalkTree::{next, cancel_walk_tree} (walkdir stubbed) are model checked for one step from every pre-state and verdict: the traversal is cancelled exactly once iff the entry becomes a discarded tree in this step, and skip_current_dir is issued iff the last yielded item is a directory; the negation verdict step (a tree verdict iff the exhaustive partition program matched) and the glob walker's closure rows serve this property too. Failures are reproduced on a real directory tree through the public API before being reported.",
            "Lifts to whole walks by induction over yielded entries under the stated walkdir 2.5 contract (skip_current_dir right after a directory removes exactly its subtree). Root-is-a-symlink corner and walkdir itself are outside the claim. Trusted: Kani/CBMC, stubs, DirEntry mirror.",
            "5 C13"),
    "C15": ("kani", MC, "bounded model checking (Kani/CBMC), full 64-bit width, of the real depth translation and walk configuration code",
            "For every DepthBehavior obtainable from the public constructors, every pivot and traversal depth: walkdir's documented yield condition on the numbers the real *_at_pivot functions return is equivalent to 'depth + pivot within the configured bounds' (split at max >= pivot); constructors keep and order bounds; WalkTree::with_pivot_and_behavior hands exactly those numbers and the link flag to the (recorded) WalkDir builder.",
            "Depth clause and link *configuration* only: what walkdir and the OS then do with links (descent, cycle errors, termination) is outside the claim. Trusted: Kani/CBMC, walkdir's documented min/max_depth semantics.",
            "5 C15"),
    "C16": ("kani", MC, "bounded model checking (Kani/CBMC) of one feed() step of stacks of the real FilterEntry / Not combinators over a one-shot symbolic source",
            "For stacks of 1-3 real layers in every order, every pre-state and all verdicts: the result is the strongest verdict (keep < file < tree), hence order independent, never un-filtered, never downgraded; every layer's verdict function is called exactly once per non-error entry; filter::filtrate yields exactly the filtrate items. Failures are reproduced on a real directory tree (battery of 399 stacks) before being reported.",
            "Stacks deeper than 3 and whole-walk histories follow by induction (each layer is the same code); the negation's verdict is an arbitrary stub (C03 decides it). Trusted: Kani/CBMC.",
            "5 C16"),
    "C20": ("kani", MC, "bounded model checking (Kani/CBMC) of the error path of the real combinators and of the real walkdir::Error -> WalkError conversion",
            "In the C13/C16 step harnesses the source may deliver an error item of arbitrary depth: through every stack it comes out unchanged as filtrate, no verdict function is called and nothing is cancelled; From<walkdir::Error> preserves depth and path for Io (with/without path) and Loop errors and its expect()s are unreachable.",
            "Pass-through and error mapping only: that a fault produces exactly one error item and that the walk carries on is walkdir + OS behaviour, outside the claim.",
            "5 C20"),
})

CHECKS.update({
    "C02": ("relang+kani", TV, "SMT regular-language emptiness on the real per-component walk programs vs. the real complete program (pruning lemma), per program, for all canonical paths; plus Kani step of the walker closure (when built)",
            "For every glob with component programs c_0..c_{k-1} (read through a hook that repeats the call site) z3 decides that no canonical path matched by the complete program has a component j rejected by c_j, and none has fewer than k components; so pruning directories by component never loses a match. Witnesses are replayed on the real regexes.",
            "Decomposition (DESIGN 5 C02): (1) this lemma, (2) per-entry decision of the real closure (engine B, concrete path-shape table), (3) cancellation = C13, (4) walkdir delivery contract assumed. Traversal itself and the OS are outside the claim.",
            "5 C02"),
    "C03": ("relang+kani", TV, "SMT regular-language equality / inclusion on the two partition programs of the real `not` vs. the public pattern program; Kani step of the real verdict function with regex verdicts stubbed",
            "For generated negations (single expression, compiled glob, `any` of 2-3 as text/compiled/nested, the empty pattern) the exhaustive/nonexhaustive partition regexes built by the real FileIterator::not are read through a hook; z3 decides L(E) ∪ L(N) = L(pattern) and that every canonical path beneath a path in L(E) is in L(E) ∪ L(N) (tree discard = per-entry filtering). Kani decides that FilterAny::residue consults the partitions with exactly the root-relative path and answers Tree iff E matched, File iff only N did.",
            "Root-relative paths are relative canonical paths (or empty); plumbing from verdict to cancellation is C13/C16. Witnesses replayed on the real regexes and, when names are file-system safe, on a real directory walk.",
            "5 C03"),
    "C04": ("relang", TV, "SMT regular-language emptiness per capture group: left-context . (group minus allowed capture language) . right-context, for all well-formed paths and all parses",
            "Structure (one regex group per capturing top-level token, in order, not nested, not under repetition, anchored) is compared per program; for each group z3 decides that no path has a parse in which the capture falls outside what its own sub-expression may match (wildcards/classes never a separator, tree wildcards a run of complete components); sat models are replayed through the real matched().get(i) and only a real capture outside the language is reported.",
            "Between-capture clause: per gap the language of the compiled pattern's top-level pieces between two groups is decided equal to the reference language of the literal/separator tokens between the two sub-expressions (replayed through real capture offsets). All parses are a superset of the engine's leftmost-first parse, so unsat is sound; sat is confirmed on the real engine.",
            "5 C04"),
    "C07": ("relang", TV, "SMT regular-language equality between the implementation's own compiled languages of metamorphically related expressions, for all paths",
            "Families generated from ASTs: alternation vs. union of branch substitutions, bounded repetition vs. unrollings, open repetition vs. prefix + zero-or-more, wrapping in single-branch braces / once-only repetitions, and any([..]) (text, compiled, owned, nested) vs. union of its patterns; z3 decides L(lhs) = ⋃ L(rhs_i); witnesses replayed through the real is_match of every member.",
            "A law is checked only when all members build; holes with flags skipped; alt-union / unroll holes not under an iterating repetition. No reference semantics involved.",
            "5 C07"),
    "C08": ("relang", TV, "SMT regular-language equality: canonical paths matched by the glob vs. Join(prefix, language of the real postfix program), per program",
            "For every program the real partition() gives prefix and postfix; z3 decides (L(glob) ∩ Canon) ∖ {prefix} = prefix/· (L(postfix) ∩ CanonRel) and the empty-remainder edge separately; postfix never rooted, idempotent re-partition, suffix text, identical rebuilt program and spans are compared per program.",
            "Canonical paths; remainder as Path::strip_prefix returns it. Known-finding attribution for the rooted leading tree wildcard is itself decided by the solver on a patched term.",
            "5 C08"),
    "C18": ("relang+kani", TV, "Kani/CBMC on the escape kernel for every char; SMT singleton-language query on the glob built from the escaped string, per string",
            "Kani: is_meta_character / is_contextual_meta_character for every char; escape on every one-char string (meta: one backslash; non-meta: unchanged, borrowed) and (thorough) every two-char non-meta string. Engine A: every string of <= 3 chars over a 25-char alphabet with all meta-characters (+ seeded fragment concatenations), no backslash, no '//': the escaped string builds, text() is invariant and equal, and z3 decides it matches that string and nothing else.",
            "Parser stop set vs. meta set outside the enumerated alphabet is outside the claim (parser not symbolically executable).",
            "5 C18"),
    "C19": ("relang", TV, "SMT regular-language equality between the compiled programs of every conversion route (skipped when byte-identical), plus per-program comparison of query answers and captures on solver-chosen paths",
            "Routes: Display+new, clone, into_owned, FromStr, TryFrom, any([text]) vs any([compiled]) vs any([owned]) vs nested, partition of borrowed vs owned. Patterns read through the hook; z3 decides language equality; depth/text/has_root/is_exhaustive/captures/semantic literals compared; matched().get(i) for i <= n+1 compared borrowed vs to_owned vs into_owned and across routes on a matched and an unmatched solver witness.",
            "Apart from language equality the comparisons are concrete per program (stated).",
            "5 C19"),
})

CHECKS.update({
    "C05": ("kani", MC, "bounded model checking (Kani/CBMC) of the real range-algebra kernels for all operands satisfying the representation invariant",
            "Kernel level: conjunction / disjunction / product / translation / bound conversion of BoundedVariantRange, NaturalRange and TokenVariance<Depth|Size> are model checked panic-free for every operand shape and all magnitudes below 2^31 (sums), full 64-bit width (unions, conversions), products with the repetition range from a constant table. Counterexamples are mapped to expressions and reproduced through Glob::new in a subprocess before being reported; panics met by the engine-A expression sweep are reported too (labelled enumeration).",
            "Parser totality, stack depth for deep nesting, and the regex back end's own errors are outside the claim (not symbolically executable here). Overflow panics near 2^64 are a known finding.",
            "5 C05"),
})

CHECKS.update({
    "C14": ("kani", MC, "bounded model checking (Kani/CBMC) of the real entry code on a finite table of concrete path shapes",
            "For 144 rows (6 spellings of the base x 6 prefixes incl. rooted and `..` x entry depths 0-3; quick tier: a seeded sample of ~25) the root and pivot are computed by the real join_and_get_depth, the walkdir::DirEntry the traversal would deliver is fabricated (mirror transmute), and the real GlobEntry::root_relative_paths / depth are checked against expectations derived from the statement alone: root segment = directory given to the walk (empty for rooted globs), relative segment = prefix components + tail (whole path for rooted), depth = Path::components().count() of the relative segment (the root directory is a component). That the relative segment is what is matched / becomes matched() is the C02 step.",
            "Bounded by the table and stated as such: the solver's symbolic part is only the file/dir flag; std::path on symbolic bytes does not terminate in CBMC. Failures are replayed on real walks (entry-field battery) or by native concrete playback.",
            "5 C14"),
})

NOT_APPLICABLE = {}

PENDING = "check not built yet in this round (see DESIGN.md section 10 for the order); not claimed until it exists"


CHECKS.update({
    "C06": ("relang", TV, "SMT regular-language emptiness on the program the real code compiled for every expression that builds: no matched path exhibits two adjacent component boundaries, and all matched paths are rooted / unrooted as has_root() says, for all unfoldings of branches and repetitions at once",
            "Acceptance soundness of the language-visible rules: for every generated expression that builds (program grammar + a family of ~26000 expressions around the rules, most of which must be rejected) the compiled pattern is restricted to L'(g) (tree wildcards over whole components, zero-or-more wildcards non-empty, repetitions iterating at least once) and z3 decides L'(g) contains no `//` and is entirely rooted or entirely unrooted in agreement with has_root(), which must be Always or Never; with every zero-or-more wildcard replaced by a marker character (and repetition bodies taken once), no string of the program has two adjacent markers (no two zero-or-more wildcards adjacent whichever branches are chosen); witnesses are replayed through the real is_match.",
            "One direction only: that well-formed expressions are not rejected, and the rules that leave no trace in the compiled program (bodies solely a wildcard / separator, bounds, size limit), are outside the claim -- the rule checker and parser cannot be executed symbolically (DESIGN 2, 11.5). Known finding: branches nested two or more levels deep (context leak).",
            "11.5 C06"),
    "C17": ("kani", MC, "bounded model checking (Kani/CBMC), full width, of the real span arithmetic: parse error span for every char at the fault, span union, composite span accessors, span adjustment of an unrooted tree wildcard",
            "Kernel level: for every character at the location of a parse error (all of char, any UTF-8 width; or end of input) the reported span lies within the expression and ends on a character boundary; the union that locates rule errors is the hull of its operands (so it preserves bounds and character boundaries); CompositeSpan / CorrelatedSpan report the spans they were given; unrooting a rooted tree wildcard moves its span start by exactly the bytes it reports. Failures are reproduced through Glob::new / captures() / partition() on a battery of expressions.",
            "Where spans come from (pori::span annotations of the nom parser, which tokens the rule checker reports) cannot be executed symbolically; those are only exercised concretely by a sweep (generated programs + a malformed-expression family with multi-byte characters), labelled enumeration in the evidence. Parser contract assumed: an error entry's fragment is the rest of the expression at its location.",
            "11.5 C17"),
})

def main():
    props = [json.loads(l) for l in open(os.path.join(HERE, "properties.jsonl"))]
    try:
        commits = subprocess.check_output(
            ["git", "-C", "/repo", "log", "--format=%H %s", "--grep=^verif hooks"], text=True).split("\n")
        commits = [c.split(" ")[0] for c in commits if c.strip()]
    except Exception:
        commits = []
    checks = []
    na = []
    for p in props:
        pid = p["id"]
        if pid in CHECKS:
            eng, cat, tech, text, note, ref = CHECKS[pid]
            checks.append({
                "property_id": pid,
                "quick_cmd": "./check %s --tier quick" % pid,
                "thorough_cmd": "./check %s --tier thorough" % pid,
                "evidence_file": "/verif/evidence/%s.json" % pid,
                "replay_cmd_template": "./check %s --replay {path}" % pid,
                "engine": eng,
                "level_claimed": {"category": cat, "text": text, "design_ref": "DESIGN.md section " + ref},
                "level_note": note,
                "technique": tech,
            })
        elif pid in NOT_APPLICABLE:
            na.append({"property_id": pid, "reason": NOT_APPLICABLE[pid]})
        else:
            na.append({"property_id": pid, "reason": PENDING})
    manifest = {
        "version": 1,
        "setup_cmd": "./setup.sh",
        "hooks": {
            "guard": "olson_sean_k_wax_verif",
            "enable": "RUSTFLAGS='--cfg olson_sean_k_wax_verif' (waxprobe build) and additionally WAX_VERIF_DIR=/verif with cargo kani (cfg(kani)) for the include!-mounted harness files",
            "baseline_off_cmd": "cd /repo && cargo test --workspace --no-fail-fast --offline",
            "source_commits": commits,
            "add_only": True,
        },
        "engines": [
            {"name": "relang", "path": "/verif/relang", "kind_free_text": A,
             "serves_properties": sorted(k for k, v in CHECKS.items() if v[0] in ("relang", "relang+kani"))},
            {"name": "kani", "path": "/verif/kani", "kind_free_text": B,
             "serves_properties": sorted(k for k, v in CHECKS.items() if v[0] in ("kani", "relang+kani"))},
        ],
        "checks": checks,
        "not_applicable": na,
        "notes": "All checks decide by solver verdict (z3 over RegLan terms derived from the real compiled patterns; CBMC via Kani over the real Rust code). Exit 2 = inconclusive (never on the unchanged tree in normal conditions). Known findings: known_findings.json (roles, fixed entries) + known_inputs/<finding>.jsonl (the failing inputs of the deterministic program set, DESIGN 11.6); neither is written at run time. See DESIGN.md.",
    }
    with open(os.path.join(HERE, "MANIFEST.json"), "w") as f:
        json.dump(manifest, f, indent=1)
    print("claimed:", [c["property_id"] for c in checks])
    print("not applicable:", [n["property_id"] for n in na])


if __name__ == "__main__":
    main()
