#!/bin/bash
# usage: evalmut.sh <mutant id> <check id>...   (applies /tmp/mut/<id>-out/patch.diff to /repo, runs checks, undoes)
id=$1; shift
patch=/tmp/mut/$id-out/patch.diff
[ -f "$patch" ] || patch=/verif/seeded/$id/patch.diff
cd /repo || exit 9
if [ -n "$(git status --porcelain -- src)" ]; then echo "repo dirty"; exit 9; fi
git apply "$patch" || { echo "patch does not apply"; exit 9; }
cd /verif
export VERIF_OUT_DIR=/tmp/mut/out-$id; mkdir -p $VERIF_OUT_DIR
for c in "$@"; do
  out=$(./check $c --tier ${TIER:-quick} 2>&1); rc=$?
  echo "== $id $c rc=$rc"
  echo "$out" | grep -E "^(VIOLATION|INCONCLUSIVE|OK)" | cut -c1-300
  echo "$out" | grep -A1 "^VIOLATION" | grep -v "^VIOLATION\|^--" | cut -c1-400 | head -4
done
git -C /repo checkout -- .
