#!/bin/bash
cd "$(dirname "$0")"
for seed in "$@"; do
  for id in C01 C02 C03 C04 C07 C08 C09 C10 C11 C12 C14 C18 C19; do
    s=$(date +%s)
    out=$(VERIF_SEED=$seed ./check $id --tier quick 2>&1); rc=$?
    e=$(date +%s)
    echo "seed=$seed $id rc=$rc $((e-s))s $(echo "$out" | grep -E '^(VIOLATION|INCONCLUSIVE)' | head -2 | cut -c1-160)"
    if [ $rc -ne 0 ]; then mkdir -p /tmp/seedfail; cp replays/$id-*.json /tmp/seedfail/ 2>/dev/null; for f in replays/$id-*.json; do [ -f "$f" ] && cp "$f" /tmp/seedfail/seed$seed-$(basename $f); done; fi
  done
done
