#!/bin/bash
cd "$(dirname "$0")"
for id in "$@"; do
  s=$(date +%s)
  out=$(./check $id --tier thorough 2>&1); rc=$?
  e=$(date +%s)
  echo "$id rc=$rc $((e-s))s $(echo "$out" | grep -c '^KNOWN-FINDING') known $(echo "$out" | grep -E '^(VIOLATION|INCONCLUSIVE)' | head -3 | cut -c1-200)"
  if [ $rc -ne 0 ]; then mkdir -p /tmp/thfail; for f in replays/$id-*.json; do [ -f "$f" ] && cp "$f" /tmp/thfail/; done; fi
done
