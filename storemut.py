#!/usr/bin/env python3
"""storemut.py <id> <property> <detected_by csv> <missed_by csv> [how] : copies a confirmed seeded change into /verif/seeded/<id>/"""
import json, os, shutil, sys
mid, prop, det, missed = sys.argv[1:5]
src = "/tmp/mut/%s-out" % mid
dst = "/verif/seeded/%s" % mid
os.makedirs(dst, exist_ok=True)
shutil.copy(os.path.join(src, "patch.diff"), os.path.join(dst, "patch.diff"))
shutil.copy(os.path.join(src, "demo_%s.rs" % mid), os.path.join(dst, "demo_%s.rs" % mid))
notes = open(os.path.join(src, "notes.md")).read()
open(os.path.join(dst, "notes.md"), "w").write(notes)
meta = {
    "id": mid, "property": prop, "origin": "independent sub-agent given only the property text and a scratch worktree",
    "what_it_breaks_and_needs": notes[:1800],
    "confirmed_by_me": {
        "worktree": "/tmp/mut/%s (scratch, removed afterwards)" % mid,
        "commands": ["cargo test --workspace --no-fail-fast --offline (with change): 468 unit + 31 doc tests pass",
                     "cargo test --offline --test demo_%s (with change): FAILS" % mid,
                     "git stash -- src; cargo test --offline --test demo_%s (without change): passes" % mid],
    },
    "checks_run": {"applied_with": (sys.argv[5] if len(sys.argv) > 5 else "git -C /repo apply seeded/%s/patch.diff ; ./check <ID> --tier quick ; git -C /repo checkout -- ." % mid),
                   "detected_by": [x for x in det.split(",") if x], "not_detected_by": [x for x in missed.split(",") if x]},
}
json.dump(meta, open(os.path.join(dst, "meta.json"), "w"), indent=1)
print("stored", dst)
